(* C07 — proofs, part 4: every payload of a main create/update is stamped.
   Syntactic, over every path of the four programs and whatever storage and cluster answer:
   a KCreate carries either [stamp_all rn ns m] for some manifest m or exactly one hook
   resource; the target of every KUpdate is [stamp_all rn ns m]. *)
From Coq Require Import List String Bool Arith ZArith Lia.
From Helm Require Import Common.Assoc Engine.Types Engine.Eff Engine.Ops Engine.Cluster Engine.Seq
                         Engine.DryRun Engine.DryRunProofs Engine.Ownership Engine.OwnershipProofs.
Import ListNotations.
Local Open Scope string_scope.

Section Stamped.
  Variable rn ns : string.
  Variable Q : eff -> Prop.
  Hypothesis H_other : forall e, (match e with KCreate _ | KUpdate _ _ => False | _ => True end) -> Q e.
  Hypothesis H_hook : forall h, Q (KCreate [h_res h]).
  Hypothesis H_main_c : forall m, Q (KCreate (stamp_all rn ns m)).
  Hypothesis H_main_u : forall cur m, Q (KUpdate cur (stamp_all rn ns m)).

  Notation AE p := (all_eff Q p).

  Ltac aeb := apply all_eff_bind; [ | intros ? ].
  Ltac oth := apply H_other; exact I.

  Lemma ae_delete_all vs : AE (delete_all vs).
  Proof.
    induction vs as [|v t IH]; simpl; [apply AE_ret|].
    apply AE_eff; [oth|]. intros e. aeb; [exact IH|]. destruct e; apply AE_ret.
  Qed.

  Lemma ae_remove_least_recent m : AE (remove_least_recent m).
  Proof.
    unfold remove_least_recent. simpl. apply AE_eff; [oth|]. intros h.
    destruct h as [|x t]; [apply AE_ret|].
    destruct (Nat.leb (List.length (x :: t)) m); [apply AE_ret|].
    simpl. apply AE_eff; [oth|]. intros ds.
    aeb; [apply ae_delete_all|].
    destruct (fst a) as [|[|n]]; apply AE_ret.
  Qed.

  Lemma ae_storage_create r mh : AE (storage_create r mh).
  Proof.
    unfold storage_create. destruct mh as [|m].
    - apply AE_eff; [oth|]. intros e. apply AE_ret.
    - aeb; [apply ae_remove_least_recent|].
      destruct a; try apply AE_ret; (apply AE_eff; [oth|]; intros e; apply AE_ret).
  Qed.

  Lemma ae_record_release r : AE (record_release r).
  Proof. unfold record_release. simpl. apply AE_eff; [oth|]. intros e. apply AE_ret. Qed.

  Lemma ae_delete_hook_by_policy h p : AE (delete_hook_by_policy h p).
  Proof.
    unfold delete_hook_by_policy.
    destruct (String.eqb (h_kind h) "CustomResourceDefinition"); [apply AE_ret|].
    destruct (has_policy h p); [|apply AE_ret].
    simpl. apply AE_eff; [oth|]. intros ok. destruct ok; [|apply AE_ret].
    apply AE_eff; [oth|]. intros w. apply AE_ret.
  Qed.

  Lemma ae_delete_hooks_by_policy hs p : AE (delete_hooks_by_policy hs p).
  Proof.
    induction hs as [|h t IH]; simpl; [apply AE_ret|].
    aeb; [apply ae_delete_hook_by_policy|]. destruct a; [apply IH|apply AE_ret].
  Qed.

  Lemma ae_exec_hooks_loop rl ev todo : forall done, AE (exec_hooks_loop rl ev todo done).
  Proof.
    induction todo as [|h t IH]; intros done; simpl.
    - apply ae_delete_hooks_by_policy.
    - aeb; [apply ae_delete_hook_by_policy|].
      destruct a; simpl; [|apply AE_ret].
      apply AE_eff; [oth|]. intros e. simpl.
      apply AE_eff; [apply H_hook|]. intros created.
      destruct created; simpl; [|apply AE_ret].
      apply AE_eff; [oth|]. intros ready.
      destruct ready; [apply IH|].
      aeb; [apply ae_delete_hook_by_policy|].
      aeb; [apply ae_delete_hooks_by_policy|]. apply AE_ret.
  Qed.

  Lemma ae_run_hooks fl rl ev : AE (run_hooks fl rl ev).
  Proof.
    unfold run_hooks. destruct (f_no_hooks fl); [apply AE_ret|]. apply ae_exec_hooks_loop.
  Qed.

  Lemma ae_purge vs : AE (purge vs).
  Proof.
    induction vs as [|v t IH]; simpl; [apply AE_ret|].
    apply AE_eff; [oth|]. intros e. destruct e; auto; apply AE_ret.
  Qed.

  Lemma ae_supersede_all ds : AE (supersede_all ds).
  Proof.
    induction ds as [|d t IH]; simpl; [apply AE_ret|].
    apply AE_eff; [oth|]. intros e. simpl. auto.
  Qed.

  Local Opaque run_hooks storage_create record_release purge supersede_all.

  Ltac st1 :=
    match goal with
    | |- all_eff _ (Ret _) => apply AE_ret
    | |- all_eff _ (Eff _ _) =>
        apply AE_eff; [ first [ oth | apply H_hook | apply H_main_c | apply H_main_u | idtac ] | intros ? ]
    | |- all_eff _ (bind (run_hooks _ _ _) _) => aeb; [ apply ae_run_hooks | ]
    | |- all_eff _ (bind (storage_create _ _) _) => aeb; [ apply ae_storage_create | ]
    | |- all_eff _ (bind (record_release _) _) => aeb; [ apply ae_record_release | ]
    | |- all_eff _ (bind (purge _) _) => aeb; [ apply ae_purge | ]
    | |- all_eff _ (bind (supersede_all _) _) => aeb; [ apply ae_supersede_all | ]
    | |- all_eff _ (bind (match ?x with _ => _ end) _) => destruct x eqn:?
    | |- all_eff _ (match ?x with _ => _ end) => destruct x eqn:?
    end.

  Ltac gs := repeat (st1; simpl).

  Lemma ae_uninstall fl : AE (uninstall fl).
  Proof. unfold uninstall. simpl. gs. Qed.

  Local Opaque uninstall.

  Lemma ae_rollback fl : AE (rollback rn ns fl).
  Proof. unfold rollback. simpl. gs. Qed.

  Local Opaque rollback.

  Lemma ae_install_fail fl rel : AE (install_fail fl rel).
  Proof.
    unfold install_fail. destruct (f_atomic fl).
    - aeb; [apply ae_uninstall|]. apply AE_ret.
    - aeb; [apply ae_record_release|]. apply AE_ret.
  Qed.

  Lemma ae_upgrade_fail fl up created : AE (upgrade_fail rn ns fl up created).
  Proof.
    unfold upgrade_fail.
    aeb; [apply ae_record_release|].
    aeb.
    { destruct (f_cleanup fl && negb (match created with [] => true | _ :: _ => false end)).
      - apply AE_eff; [oth|]. intros ok. apply AE_ret.
      - apply AE_ret. }
    destruct (negb a0); [apply AE_ret|].
    destruct (f_atomic fl); [|apply AE_ret].
    simpl. apply AE_eff; [oth|]. intros h.
    match goal with |- all_eff _ (match ?x with _ => _ end) => destruct x end; [|apply AE_ret].
    aeb; [apply ae_rollback|]. apply AE_ret.
  Qed.

  Ltac st2 :=
    match goal with
    | |- all_eff _ (install_fail _ _) => apply ae_install_fail
    | |- all_eff _ (upgrade_fail _ _ _ _ _) => apply ae_upgrade_fail
    | _ => st1
    end.

  Ltac gs2 := repeat (st2; simpl).

  Lemma ae_install fl cid vid mani hks : AE (install rn ns fl cid vid mani hks).
  Proof.
    unfold install. simpl. gs2.
    all: match goal with H : stamp_all rn ns ?m = _ |- _ => rewrite <- H end.
    all: first [apply H_main_c | apply H_main_u].
  Qed.

  Lemma ae_upgrade fl cid vid mani hks : AE (upgrade rn ns fl cid vid mani hks).
  Proof. unfold upgrade. simpl. gs2. Qed.

  Lemma ae_op o : AE (op_prog rn ns o).
  Proof.
    destruct o; simpl.
    - apply ae_install.
    - apply ae_upgrade.
    - apply ae_rollback.
    - apply ae_uninstall.
  Qed.
End Stamped.

(* C07_stamped *)
Theorem ops_writes_stamped rn ns o : all_eff (writes_stamped rn ns) (op_prog rn ns o).
Proof.
  apply ae_op.
  - intros e He. destruct e; simpl in *; auto; contradiction.
  - intros h. simpl. right. now exists h.
  - intros m. simpl. left. now exists m.
  - intros cur m. simpl. now exists m.
Qed.

(* hence every resource in such a payload (other than a hook's) is owned by (rn, ns) *)
Theorem ops_payload_owned rn ns o :
  all_eff (fun e => match e with
                    | KCreate rs => Forall (fun r => owned_by rn ns (r_fields r) = true) rs \/ exists h, rs = [h_res h]
                    | KUpdate _ tgt => Forall (fun r => owned_by rn ns (r_fields r) = true) tgt
                    | _ => True
                    end) (op_prog rn ns o).
Proof.
  eapply all_eff_weaken; [|apply ops_writes_stamped].
  intros e He. destruct e; simpl in *; auto.
  - destruct He as [He|He]; [left; now apply stamped_list_owned|now right].
  - now apply stamped_list_owned.
Qed.

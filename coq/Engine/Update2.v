(* C02, round 4 — kube.Client.Create / update / Delete against an object store holding the field
   trees of Engine/Obj2.v, for an API server that accepts every request (the property's premise;
   request faults stay with the flat model of Engine/Cluster.v).

   pkg/kube/client.go: update (400-474) with its two phases, updateResource (673) choosing between
   replace (--force) and patch, createPatch (610) choosing the patch by the kind of the TARGET
   (built-in: strategic three-way; unstructured/CRD: JSON merge patch, two-way unless the caller is
   UpdateThreeWayMerge), perform/rdelete for Create and Delete.

   Definitions only; proofs in Engine/Update2Proofs.v. *)
From Coq Require Import List String Ascii Bool Arith.
From Helm Require Import Common.Assoc Engine.Cluster Engine.Obj2.
Import ListNotations.
Local Open Scope string_scope.

(* a manifest entry.  The IDENTITY of a resource is (namespace, API group, kind, name): the version part
   of apiVersion ([r2_ver]) is carried along and is not part of the key — ResourceList.Get / Contains /
   Difference (pkg/kube/resource.go: isMatchingInfo) compare name, namespace, group and kind, and an API
   server holds one object per (namespace, group, kind, name) whatever version it is addressed by.
   [r2_unstr]: the client holds the kind as unstructured (no Go type in its scheme: custom resources). *)
Record res2 := mkRes2 {
  r2_ns : string; r2_group : string; r2_kind : string; r2_name : string;
  r2_ver : string; r2_unstr : bool; r2_obj : tree }.

Definition r2_key (r : res2) : string := r2_ns r ++ "/" ++ r2_group r ++ "/" ++ r2_kind r ++ "/" ++ r2_name r.

(* the same entry at another version of its API group *)
Definition with_ver (v : string) (r : res2) : res2 :=
  mkRes2 (r2_ns r) (r2_group r) (r2_kind r) (r2_name r) v (r2_unstr r) (r2_obj r).

Definition store2 := list (string * tree).

Definition find_res2 (key : string) (rs : list res2) : option res2 :=
  find (fun r => String.eqb (r2_key r) key) rs.

Definition in_keys2 (k : string) (rs : list res2) : bool := existsb (fun r => String.eqb (r2_key r) k) rs.

(* update(): annotations[ResourcePolicyAnno] == KeepPolicy on the LIVE object (scalars carry JSON text) *)
Definition keep_path : list string := ["metadata"; "annotations"; "helm.sh/resource-policy"].
Definition live_keep2 (l : tree) : bool :=
  match tget keep_path l with
  | Some (TS v) => String.eqb v """keep"""
  | _ => false
  end.

(* updateResource / createPatch: which of the four ways *)
Definition mode_of (force tw : bool) (t : res2) : umode :=
  if force then UForce
  else if r2_unstr t then (if tw then UJson3 else UJson2)
  else UStrategic.

Section Update2.
  Variables force tw : bool.

  Definition merged2 (old t : res2) (live : tree) : tree :=
    merge_by (mode_of force tw t) (r2_obj old) (r2_obj t) live.

  (* first phase: sequential over the target; stops at "no <Kind> with the name found".
     Result: store, hard error?, created keys, effective mutations *)
  Fixpoint k2_targets (o : store2) (cur tgt : list res2) (created : list string) (muts : list (verb * string))
    : store2 * bool * list string * list (verb * string) :=
    match tgt with
    | [] => (o, false, created, muts)
    | r :: t =>
        let key := r2_key r in
        match aget key o with
        | None =>
            k2_targets (aset key (r2_obj r) o) cur t (created ++ [key])%list (muts ++ [(VCreate, key)])%list
        | Some live =>
            match find_res2 key cur with
            | None => (o, true, created, muts)
            | Some old =>
                let m := merged2 old r live in
                k2_targets (aset key m o) cur t created
                           (* the object changed (keyed lists: up to the interleaving the model leaves open) *)
                           (if tagree (Some (r2_obj r)) m live then muts else (muts ++ [(VPatch, key)])%list)
            end
        end
    end.

  (* second phase: what the original names and the target does not is deleted unless the LIVE object
     says keep *)
  Fixpoint k2_deletes (o : store2) (dels : list res2) (muts : list (verb * string))
    : store2 * list (verb * string) :=
    match dels with
    | [] => (o, muts)
    | r :: t =>
        let key := r2_key r in
        match aget key o with
        | None => k2_deletes o t muts
        | Some live =>
            if live_keep2 live then k2_deletes o t muts
            else k2_deletes (adel key o) t (muts ++ [(VDelete, key)])%list
        end
    end.

  Definition removed2 (cur tgt : list res2) : list res2 :=
    filter (fun x => negb (in_keys2 (r2_key x) tgt)) cur.

  (* (store, (ok, created keys), effective mutations) *)
  Definition k2_update (o : store2) (cur tgt : list res2)
    : store2 * (bool * list string) * list (verb * string) :=
    let '(o1, hard, created, muts) := k2_targets o cur tgt [] [] in
    if hard then (o1, (false, created), muts)
    else let '(o2, muts2) := k2_deletes o1 (removed2 cur tgt) muts in
         (o2, (true, created), muts2).
End Update2.

(* Client.Create: every resource is attempted; an existing object fails the call *)
Fixpoint k2_create (o : store2) (rs : list res2) (ok : bool) (muts : list (verb * string))
  : store2 * bool * list (verb * string) :=
  match rs with
  | [] => (o, ok, muts)
  | r :: t =>
      if amem (r2_key r) o then k2_create o t false muts
      else k2_create (aset (r2_key r) (r2_obj r) o) t ok (muts ++ [(VCreate, r2_key r)])%list
  end.

(* Client.Delete: not-found counts as deleted *)
Fixpoint k2_delete (o : store2) (rs : list res2) (muts : list (verb * string))
  : store2 * list (verb * string) :=
  match rs with
  | [] => (o, muts)
  | r :: t =>
      if amem (r2_key r) o
      then k2_delete (adel (r2_key r) o) t (muts ++ [(VDelete, r2_key r)])%list
      else k2_delete o t muts
  end.

(* ---- action.recreate (pkg/action/upgrade.go:631; --recreate-pods of upgrade and rollback), round 5 ----
   For every UPDATED resource whose object, as Client.update left it in the Info (= as the store holds it after
   the update), has a pod selector (kube.SelectorsForObject: workload kinds by spec.selector, a Service by a
   NON-EMPTY spec.selector; anything else, and a Service without selector, is skipped): the pods of the
   resource's namespace whose labels satisfy the selector are deleted.  The selectors are those of the objects as
   they were when Client.update returned (the Infos are not fetched again).
   Of the kinds SelectorsForObject knows, the model has Deployment (matchLabels only) and Service. *)
Fixpoint prefixb (p s : string) : bool :=
  match p with
  | EmptyString => true
  | String c p' => match s with
                   | String d s' => Ascii.eqb c d && prefixb p' s'
                   | EmptyString => false
                   end
  end.

(* store keys are namespace/group/kind/name; pods are core kinds *)
Definition pod_key_in (ns key : string) : bool := prefixb (ns ++ "//Pod/") key.

Definition labels_of (o : tree) : list (string * tree) :=
  match tget ["metadata"; "labels"] o with Some (TM l) => l | _ => [] end.

Definition sel_match (sel labs : list (string * tree)) : bool :=
  forallb (fun kv => match aget (fst kv) labs with Some v => teqv v (snd kv) | None => false end) sel.

Definition selector_of (r : res2) (obj : tree) : option (list (string * tree)) :=
  if String.eqb (r2_kind r) "Deployment" && String.eqb (r2_group r) "apps" then
    (* metav1.LabelSelectorAsSelector: no requirement = everything *)
    match tget ["spec"; "selector"; "matchLabels"] obj with
    | Some (TM ml) => Some ml
    | _ => Some []
    end
  else if String.eqb (r2_kind r) "Service" && String.eqb (r2_group r) "" then
    match tget ["spec"; "selector"] obj with
    | Some (TM (x :: l)) => Some (x :: l)
    | _ => None                               (* "Service is defined without a selector": skipped *)
    end
  else None.

(* (namespace, selector) of the updated resources *)
Fixpoint recreate_sels (o : store2) (rs : list res2) : list (string * list (string * tree)) :=
  match rs with
  | [] => []
  | r :: t =>
      match aget (r2_key r) o with
      | Some obj => match selector_of r obj with
                    | Some sel => (r2_ns r, sel) :: recreate_sels o t
                    | None => recreate_sels o t
                    end
      | None => recreate_sels o t
      end
  end.

Definition pod_selected (sels : list (string * list (string * tree))) (kv : string * tree) : bool :=
  existsb (fun s => pod_key_in (fst s) (fst kv) && sel_match (snd s) (labels_of (snd kv))) sels.

Definition k2_recreate (o : store2) (updated : list res2) : store2 * list (verb * string) :=
  let sels := recreate_sels o updated in
  (filter (fun kv => negb (pod_selected sels kv)) o,
   map (fun kv => (VDelete, fst kv)) (filter (pod_selected sels) o)).

(* C01 — history pruning (Storage.Create with MaxHistory = S m, removeLeastRecent):
   which revisions are deleted, and what the choice guarantees. *)
From Coq Require Import List String Bool Arith Lia Sorted.
From Helm Require Import Common.Assoc Engine.Types Engine.Eff Engine.Ops Engine.Cluster Engine.Seq
  Engine.SeqProofs Engine.LedgerBase Engine.LedgerPieces Engine.LedgerDep.
Import ListNotations.

(* the revision removeLeastRecent protects: the highest deployed one *)
Definition deployed_rev (h : list release) : option nat :=
  match max_rev_of (filter is_deployed h) with Some d => Some (rev d) | None => None end.

(* the revisions Storage.Create deletes before creating, for MaxHistory = S m *)
Definition pruned (h : list release) (m : nat) : list nat :=
  if Nat.leb (List.length h) m then []
  else prune_pick (sort_by_rev h) (deployed_rev h) (List.length h) m 0.

Definition is_some {A} (o : option A) : bool := match o with Some _ => true | None => false end.

(* ---- sort_by_rev ---- *)
Definition rev_le (a b : release) : Prop := rev a <= rev b.

Lemma insert_sorted r l : StronglySorted rev_le l -> StronglySorted rev_le (insert_by_rev r l).
Proof.
  induction l as [|x t IH]; intros H; simpl.
  - constructor; constructor.
  - inversion H as [|? ? Ht Hx]; subst. destruct (Nat.leb (rev r) (rev x)) eqn:E.
    + apply Nat.leb_le in E. constructor; auto. constructor; auto.
      rewrite Forall_forall in *. intros y Hy. specialize (Hx y Hy). unfold rev_le in *. lia.
    + apply Nat.leb_gt in E. constructor; auto. rewrite Forall_forall in *. intros y Hy.
      apply in_insert_by_rev in Hy. destruct Hy as [->|Hy]; [unfold rev_le; lia|auto].
Qed.

Lemma sort_sorted l : StronglySorted rev_le (sort_by_rev l).
Proof. unfold sort_by_rev. induction l; simpl; [constructor|now apply insert_sorted]. Qed.

Lemma filter_len_insert (p : release -> bool) r l :
  List.length (filter p (insert_by_rev r l)) = List.length (filter p (r :: l)).
Proof.
  induction l as [|x t IH]; simpl; auto.
  destruct (Nat.leb (rev r) (rev x)); simpl; auto.
  simpl in IH. destruct (p x); simpl; rewrite IH; destruct (p r); simpl; auto.
Qed.

Lemma filter_len_sort (p : release -> bool) l :
  List.length (filter p (sort_by_rev l)) = List.length (filter p l).
Proof.
  unfold sort_by_rev. induction l as [|x t IH]; simpl; auto.
  rewrite filter_len_insert. simpl. destruct (p x); simpl; auto.
Qed.

Lemma length_sort l : List.length (sort_by_rev l) = List.length l.
Proof.
  pose proof (filter_len_sort (fun _ => true) l) as H.
  assert (E : forall l0 : list release, filter (fun _ => true) l0 = l0)
    by (induction l0; simpl; congruence).
  now rewrite !E in H.
Qed.

Lemma revs_sort_in v l : In v (revs (sort_by_rev l)) <-> In v (revs l).
Proof.
  rewrite !in_revs. split; intros [r [H E]]; exists r; split; auto; now apply in_sort_by_rev.
Qed.

(* ---- prune_pick ---- *)
Definition is_dep (dep : option nat) (r : release) : bool :=
  match dep with Some d => Nat.eqb (rev r) d | None => false end.

Lemma in_prune_pick s dep tot m : forall p v,
  In v (prune_pick s dep tot m p) -> In v (revs s) /\ dep <> Some v.
Proof.
  induction s as [|r t IH]; intros p v H; simpl in *; [destruct H|].
  destruct (Nat.eqb (tot - p) m); [destruct H|].
  destruct dep as [d|].
  - destruct (Nat.eqb (rev r) d) eqn:E.
    + destruct (IH _ _ H). auto.
    + destruct H as [<-|H].
      * split; auto. apply Nat.eqb_neq in E. congruence.
      * destruct (IH _ _ H). auto.
  - destruct H as [<-|H]; [split; auto; discriminate|]. destruct (IH _ _ H). auto.
Qed.

Lemma prune_pick_nodup s dep tot m : forall p, NoDup (revs s) -> NoDup (prune_pick s dep tot m p).
Proof.
  induction s as [|r t IH]; intros p H; simpl; [constructor|].
  inversion H as [|? ? Hn Ht]; subst.
  destruct (Nat.eqb (tot - p) m); [constructor|].
  destruct (match dep with Some d => Nat.eqb (rev r) d | None => false end); auto.
  constructor; auto. intros X. apply in_prune_pick in X. tauto.
Qed.

(* oldest first: a picked revision is below every revision that is neither picked nor protected *)
Lemma prune_pick_oldest s dep tot m : forall p,
  StronglySorted rev_le s ->
  forall v x, In v (prune_pick s dep tot m p) -> In x s ->
              ~ In (rev x) (prune_pick s dep tot m p) -> dep <> Some (rev x) -> v <= rev x.
Proof.
  induction s as [|r t IH]; intros p Hs v x Hv Hx Hnot Hdep; simpl in *; [destruct Hv|].
  inversion Hs as [|? ? Ht Hr]; subst. rewrite Forall_forall in Hr.
  destruct (Nat.eqb (tot - p) m); [destruct Hv|].
  destruct (match dep with Some d => Nat.eqb (rev r) d | None => false end) eqn:Hskip.
  - destruct Hx as [->|Hx]; [|eapply IH; eauto].
    destruct dep as [d|]; [|discriminate]. apply Nat.eqb_eq in Hskip. congruence.
  - destruct Hx as [->|Hx]; [exfalso; apply Hnot; now left|].
    destruct Hv as [<-|Hv]; [apply (Hr x Hx)|].
    eapply IH; eauto. intros X. apply Hnot. now right.
Qed.

Lemma prune_pick_length s dep tot m : forall p,
  m <= tot -> p <= tot - m ->
  List.length (prune_pick s dep tot m p) =
  Nat.min (tot - m - p) (List.length (filter (fun r => negb (is_dep dep r)) s)).
Proof.
  induction s as [|r t IH]; intros p Hm Hp; simpl; [lia|].
  destruct (Nat.eqb (tot - p) m) eqn:E.
  - apply Nat.eqb_eq in E. simpl. lia.
  - apply Nat.eqb_neq in E. unfold is_dep at 1.
    destruct (match dep with Some d => Nat.eqb (rev r) d | None => false end); simpl.
    + apply IH; auto.
    + rewrite IH by lia.
      generalize (List.length (filter (fun r0 : release => negb (is_dep dep r0)) t)). intros n. lia.
Qed.

Lemma filter_split_len {A} (p : A -> bool) l :
  List.length (filter p l) + List.length (filter (fun x => negb (p x)) l) = List.length l.
Proof. induction l as [|x t IH]; simpl; auto. destruct (p x); simpl; lia. Qed.

Lemma count_rev_nodup d l :
  NoDup (revs l) -> In d (revs l) -> List.length (filter (fun r => Nat.eqb (rev r) d) l) = 1.
Proof.
  induction l as [|x t IH]; simpl; intros Hn Hin; [destruct Hin|].
  inversion Hn as [|? ? Hnot Ht]; subst.
  destruct (Nat.eqb (rev x) d) eqn:E.
  - apply Nat.eqb_eq in E. subst d. simpl. f_equal.
    destruct (filter (fun r => Nat.eqb (rev r) (rev x)) t) as [|y u] eqn:F; auto.
    exfalso. assert (X : In y (filter (fun r => Nat.eqb (rev r) (rev x)) t)) by (rewrite F; now left).
    apply filter_In in X. destruct X as [X1 X2]. apply Nat.eqb_eq in X2. apply Hnot. rewrite <- X2.
    now apply in_map.
  - apply Nat.eqb_neq in E. destruct Hin as [Hin|Hin]; [congruence|]. auto.
Qed.

Lemma deployed_rev_in h d : deployed_rev h = Some d -> In d (revs h).
Proof.
  unfold deployed_rev. destruct (max_rev_of (filter is_deployed h)) as [x|] eqn:E; [|discriminate].
  intros H. inversion H; subst. apply max_rev_of_some in E. destruct E as [E _].
  apply filter_In in E. destruct E as [E _]. now apply in_map.
Qed.

Lemma pruned_length h m :
  NoDup (revs h) ->
  List.length (pruned h m) =
  if Nat.leb (List.length h) m then 0
  else if Nat.eqb m 0 && is_some (deployed_rev h) then List.length h - 1
  else List.length h - m.
Proof.
  intros Hn. unfold pruned. destruct (Nat.leb (List.length h) m) eqn:E; auto.
  apply Nat.leb_gt in E. rewrite prune_pick_length by lia.
  rewrite filter_len_sort.
  pose proof (filter_split_len (is_dep (deployed_rev h)) h) as Hsp.
  destruct (deployed_rev h) as [d|] eqn:D; unfold is_dep in *; simpl.
  - apply deployed_rev_in in D. rewrite (count_rev_nodup d h Hn D) in Hsp.
    destruct (Nat.eqb m 0) eqn:M; simpl.
    + apply Nat.eqb_eq in M. lia.
    + apply Nat.eqb_neq in M. lia.
  - simpl in Hsp. rewrite andb_false_r.
    assert (Z : List.length (filter (fun _ : release => false) h) = 0) by (clear; induction h; simpl; auto).
    rewrite Z in Hsp. lia.
Qed.

(* ---- deleting a set of revisions ---- *)
Lemma in_remove_all_iff vs : forall l r, In r (remove_all vs l) <-> In r l /\ ~ In (rev r) vs.
Proof.
  induction vs as [|v t IH]; intros l r; simpl; [tauto|].
  rewrite IH, in_remove_rev. intuition.
Qed.

Lemma length_remove_rev v l :
  NoDup (revs l) -> In v (revs l) -> S (List.length (remove_rev v l)) = List.length l.
Proof.
  intros Hn Hin. unfold remove_rev.
  pose proof (filter_split_len (fun r => Nat.eqb (rev r) v) l) as Hsp.
  rewrite (count_rev_nodup v l Hn Hin) in Hsp. lia.
Qed.

Lemma revs_remove_rev_in v w l : w <> v -> In w (revs l) -> In w (revs (remove_rev v l)).
Proof.
  rewrite !in_revs. intros Hne [r [H E]]. exists r. split; auto. apply in_remove_rev. split; auto. congruence.
Qed.

Lemma length_remove_all vs : forall l,
  NoDup (revs l) -> NoDup vs -> (forall v, In v vs -> In v (revs l)) ->
  List.length (remove_all vs l) + List.length vs = List.length l.
Proof.
  induction vs as [|v t IH]; intros l Hn Hv Hin; simpl; [lia|].
  inversion Hv as [|? ? Hnot Ht]; subst.
  rewrite <- (length_remove_rev v l Hn (Hin v (or_introl eq_refl))).
  rewrite <- (IH (remove_rev v l)); [lia| |auto|].
  - now apply NoDup_revs_remove.
  - intros w Hw. apply revs_remove_rev_in; [intros ->; contradiction|]. apply Hin. now right.
Qed.

Lemma pruned_in h m v : In v (pruned h m) -> In v (revs h) /\ deployed_rev h <> Some v.
Proof.
  unfold pruned. destruct (Nat.leb (List.length h) m); [intros []|].
  intros H. apply in_prune_pick in H. destruct H as [H1 H2]. split; auto. now apply revs_sort_in.
Qed.

Lemma sort_nodup h : NoDup (revs h) -> NoDup (revs (sort_by_rev h)).
Proof.
  unfold sort_by_rev. induction h as [|x t IH]; simpl; intros H; [constructor|].
  inversion H as [|? ? Hnot Ht]; subst. specialize (IH Ht).
  assert (Hnot' : ~ In (rev x) (revs (fold_right insert_by_rev [] t))).
  { intros X. apply Hnot. now apply (revs_sort_in (rev x) t). }
  revert IH Hnot'. generalize (fold_right insert_by_rev [] t). intros l.
  induction l as [|y u IHu]; simpl; intros Hl Hx.
  - constructor; auto.
  - destruct (Nat.leb (rev x) (rev y)); simpl.
    + constructor; auto.
    + inversion Hl as [|? ? Hy Hu]; subst. constructor.
      * intros X. apply in_revs in X. destruct X as [z [Hz Ez]]. apply in_insert_by_rev in Hz.
        destruct Hz as [->|Hz]; [apply Hx; now left|]. apply Hy. rewrite <- Ez. now apply in_map.
      * apply IHu; auto.
Qed.

Lemma pruned_nodup h m : NoDup (revs h) -> NoDup (pruned h m).
Proof.
  intros H. unfold pruned. destruct (Nat.leb (List.length h) m); [constructor|].
  apply prune_pick_nodup. now apply sort_nodup.
Qed.

(* ---- the pure characterisation ---- *)
Lemma prune_never_deployed h m d : deployed_rev h = Some d -> ~ In d (pruned h m).
Proof. intros H X. apply pruned_in in X. tauto. Qed.

Lemma prune_oldest_first h m v x :
  NoDup (revs h) ->
  In v (pruned h m) -> In x (remove_all (pruned h m) h) -> deployed_rev h <> Some (rev x) -> v < rev x.
Proof.
  intros Hn Hv Hx Hd. apply in_remove_all_iff in Hx. destruct Hx as [Hx Hnot].
  assert (v <> rev x) by (intros ->; contradiction).
  assert (v <= rev x); [|lia].
  unfold pruned in *. destruct (Nat.leb (List.length h) m); [destruct Hv|].
  eapply prune_pick_oldest; eauto; [apply sort_sorted|now apply in_sort_by_rev].
Qed.

Lemma prune_kept_length h m :
  NoDup (revs h) ->
  List.length (remove_all (pruned h m) h) =
  if Nat.leb (List.length h) m then List.length h
  else if Nat.eqb m 0 && is_some (deployed_rev h) then 1
  else m.
Proof.
  intros Hn.
  pose proof (length_remove_all (pruned h m) h Hn (pruned_nodup h m Hn)
                (fun v Hv => proj1 (pruned_in h m v Hv))) as L.
  rewrite (pruned_length h m Hn) in L.
  destruct (Nat.leb (List.length h) m) eqn:E; [lia|]. apply Nat.leb_gt in E.
  destruct (Nat.eqb m 0 && is_some (deployed_rev h)); lia.
Qed.

Lemma prune_spec_all (h : list release) (m : nat) :
  NoDup (revs h) ->
  let del := pruned h m in
  let kept := remove_all del h in
  del = (if Nat.leb (List.length h) m then []
         else prune_pick (sort_by_rev h) (deployed_rev h) (List.length h) m 0) /\
  (forall x, In x kept <-> In x h /\ ~ In (rev x) del) /\
  (forall d, deployed_rev h = Some d -> ~ In d del) /\
  (forall v x, In v del -> In x kept -> deployed_rev h <> Some (rev x) -> v < rev x) /\
  List.length kept =
    (if Nat.leb (List.length h) m then List.length h
     else if Nat.eqb m 0 && is_some (deployed_rev h) then 1 else m).
Proof.
  intros Hn. cbv zeta. split; [reflexivity|].
  split; [exact (in_remove_all_iff (pruned h m) h)|].
  split; [exact (fun d => prune_never_deployed h m d)|].
  split; [exact (fun v x => prune_oldest_first h m v x Hn)|].
  exact (prune_kept_length h m Hn).
Qed.

(* ---- what the program does ---- *)
Lemma in_firstn {A} (a : A) n l : In a (firstn n l) -> In a l.
Proof.
  revert l. induction n as [|n IH]; intros l H; simpl in H; [destruct H|].
  destruct l as [|x t]; [destruct H|]. destruct H as [->|H]; [now left|right; auto].
Qed.

(* a record that a (possibly interrupted) pruning run removed was selected for deletion *)
Lemma prune_prefix_missing h m n x :
  In x h -> ~ In x (remove_all (firstn n (pruned h m)) h) -> In (rev x) (pruned h m).
Proof.
  intros Hx Hnot. destruct (in_dec Nat.eq_dec (rev x) (firstn n (pruned h m))) as [Hin|Hout].
  - eapply in_firstn; eauto.
  - exfalso. apply Hnot. apply in_remove_all_iff. auto.
Qed.

Section Prune.
  Variable K : Type.
  Variable kh : forall e : eff, K -> K * resp e * list kev.
  Variable dresp : forall e : eff, resp e.
  Variable f : sfaults.
  Variable F : eff -> Prop.
  Hypothesis Hw : wfail f = None.
  Notation wpA := (wpA kh dresp f F).

  Lemma has_rev_remove_other v w l : w <> v -> has_rev w (remove_rev v l) = has_rev w l.
  Proof.
    intros Hne. destruct (has_rev w l) eqn:E.
    - apply has_rev_true in E. destruct E as [r [H1 H2]]. apply has_rev_true. exists r. split; auto.
      apply in_remove_rev. split; auto. congruence.
    - apply has_rev_false. intros r Hr. apply in_remove_rev in Hr. destruct Hr as [Hr _].
      rewrite has_rev_false in E. auto.
  Qed.

  (* if the process dies in the loop, a prefix of the selected revisions is gone *)
  Lemma delete_all_spec vs : forall l cs,
    NoDup vs -> (forall v, In v vs -> has_rev v l = true) ->
    wpA (fun l' _ => exists n, l' = remove_all (firstn n vs) l) (delete_all vs)
        (fun l' c r => l' = remove_all vs l /\ c = cs /\ fst r = 0) l cs.
  Proof.
    induction vs as [|v t IH]; intros l cs Hn Hin; cbn [delete_all]; wp_norm.
    - apply wp_ret. auto.
    - inversion Hn as [|? ? Hnot Ht]; subst.
      apply wp_delete; [exists 0; reflexivity|intros X _; congruence|].
      rewrite (Hin v (or_introl eq_refl)).
      eapply wp_bind_rel; [apply (IH (remove_rev v l) cs Ht)| |]; cbv beta.
      + intros w Hw'. rewrite has_rev_remove_other; [apply Hin; now right|]. intros ->. contradiction.
      + intros l1 _ [n ->]. exists (S n). reflexivity.
      + intros l1 c1 r [-> [-> Hr]]. apply wp_ret. simpl. auto.
  Qed.

  Lemma deployed_rev_eq h :
    match max_rev_of (filter (fun r => status_eqb (st r) SDeployed) h) with
    | Some d => Some (rev d) | None => None end = deployed_rev h.
  Proof. reflexivity. Qed.

  Definition prune_result (r : release) (m : nat) (h : list release) (cs : list nat)
             (l' : list release) (c : list nat) (e : serr) : Prop :=
    let kept := remove_all (pruned h m) h in
    if has_rev (rev r) kept then e = SExists /\ l' = kept /\ c = cs
    else e = SOk /\ l' = (kept ++ [r])%list /\ c = (cs ++ [rev r])%list.

  Lemma storage_create_prune r m h cs :
    NoDup (revs h) ->
    wpA (fun l' _ => exists n, l' = remove_all (firstn n (pruned h m)) h)
        (storage_create r (S m)) (prune_result r m h cs) h cs.
  Proof.
    intros Hn. cbn [storage_create]. unfold prune_result.
    assert (Hcreate : forall l, l = remove_all (pruned h m) h ->
              wpA (fun l' _ => exists n, l' = remove_all (firstn n (pruned h m)) h)
                  (perform (SCreate r))
                  (fun l' c e =>
                     let kept := remove_all (pruned h m) h in
                     if has_rev (rev r) kept then e = SExists /\ l' = kept /\ c = cs
                     else e = SOk /\ l' = (kept ++ [r])%list /\ c = (cs ++ [rev r])%list) l cs).
    { intros l ->. unfold perform. apply wp_create.
      - exists (List.length (pruned h m)). now rewrite firstn_all.
      - intros X _; congruence.
      - intros E. apply wp_ret. cbv zeta. rewrite E. auto.
      - intros E. apply wp_ret. cbv zeta. rewrite E. auto. }
    unfold remove_least_recent. wp_norm. apply wp_history.
    destruct h as [|x t] eqn:Hh.
    { wp_norm. apply Hcreate. reflexivity. }
    rewrite <- Hh in *. clear x t Hh. wp_norm.
    destruct (Nat.leb (List.length h) m) eqn:E.
    { wp_norm. apply Hcreate. unfold pruned. now rewrite E. }
    apply wp_deployed_all. rewrite deployed_rev_eq.
    assert (Hp : pruned h m = prune_pick (sort_by_rev h) (deployed_rev h) (List.length h) m 0)
      by (unfold pruned; now rewrite E).
    rewrite <- Hp. apply wp_bind.
    eapply wp_bind_rel; [apply (delete_all_spec (pruned h m) h cs)|auto|]; cbv beta.
    - now apply pruned_nodup.
    - intros v Hv. apply pruned_in in Hv. destruct Hv as [Hv _]. apply in_revs in Hv.
      apply has_rev_true. exact Hv.
    - intros l1 c1 res [-> [-> H0]]. rewrite H0. apply wp_ret. now apply Hcreate.
  Qed.

  (* without a crash point the process stays alive *)
  Lemma alive_step e (s : rstate K) :
    crash f = None -> dead s = false -> dead (fst (step K kh dresp f e s)) = false.
  Proof.
    intros Hc Hd. unfold step. rewrite Hd, Hc. cbn [negb eq_opt]. rewrite andb_false_r. rewrite Hd.
    destruct (is_cluster_call e).
    - destruct (kh e (ks s)) as [[? ?] ?]. reflexivity.
    - destruct (is_storage_write e).
      + destruct (eq_opt (wfail f) (nwrites s)); [reflexivity|].
        destruct (storage_apply dresp e (led s)) as [[? ?] ?]. reflexivity.
      + destruct (storage_apply dresp e (led s)) as [[? ?] ?]. exact Hd.
  Qed.

  Lemma alive_run {A} (p : prog A) : forall s : rstate K,
    crash f = None -> dead s = false -> dead (fst (run K kh dresp f p s)) = false.
  Proof.
    induction p as [a|e k IH]; intros s Hc Hd; simpl; auto.
    pose proof (alive_step e s Hc Hd) as H. destruct (step K kh dresp f e s) as [s' r].
    apply IH; auto.
  Qed.

  (* any crash point: dead = a prefix of the selected revisions is gone and nothing else changed
     (the new record is missing); alive = the full result *)
  Lemma storage_create_prune_any_run r m (s : rstate K) :
    dead s = false -> NoDup (revs (led s)) ->
    let h := led s in
    let kept := remove_all (pruned h m) h in
    let s' := fst (run K kh dresp f (storage_create r (S m)) s) in
    let e := snd (run K kh dresp f (storage_create r (S m)) s) in
    if dead s' then exists n, led s' = remove_all (firstn n (pruned h m)) h
    else if has_rev (rev r) kept then e = SExists /\ led s' = kept
    else e = SOk /\ led s' = (kept ++ [r])%list.
  Proof.
    intros Hd Hn. cbv zeta.
    destruct (storage_create_prune r m (led s) (creates (tr s)) Hn s eq_refl eq_refl Hd
                (fails_only_none K kh dresp f F _ Hw s)) as [H1 H2].
    destruct (dead (fst (run K kh dresp f (storage_create r (S m)) s))).
    - apply H1. reflexivity.
    - specialize (H2 eq_refl). unfold prune_result in H2. cbv zeta in H2.
      destruct (has_rev (rev r) (remove_all (pruned (led s) m) (led s))); tauto.
  Qed.

  Lemma storage_create_prune_run r m (s : rstate K) :
    crash f = None -> dead s = false -> NoDup (revs (led s)) ->
    let kept := remove_all (pruned (led s) m) (led s) in
    let s' := fst (run K kh dresp f (storage_create r (S m)) s) in
    let e := snd (run K kh dresp f (storage_create r (S m)) s) in
    dead s' = false /\
    if has_rev (rev r) kept then e = SExists /\ led s' = kept
    else e = SOk /\ led s' = (kept ++ [r])%list.
  Proof.
    intros Hc Hd Hn. cbv zeta.
    pose proof (alive_run (storage_create r (S m)) s Hc Hd) as Ha.
    pose proof (storage_create_prune_any_run r m s Hd Hn) as H. cbv zeta in H.
    rewrite Ha in H. split; auto.
  Qed.
End Prune.

(* the statements without the (irrelevant, since wfail = None) failable-write class *)
Lemma prune_run_thm :
  forall (K : Type) (kh : forall e : eff, K -> K * resp e * list kev) (dresp : forall e, resp e)
         (f : sfaults),
    wfail f = None ->
    forall (r : release) (m : nat) (s : rstate K),
    crash f = None -> dead s = false -> NoDup (revs (led s)) ->
    let kept := remove_all (pruned (led s) m) (led s) in
    let s' := fst (run K kh dresp f (storage_create r (S m)) s) in
    let e := snd (run K kh dresp f (storage_create r (S m)) s) in
    dead s' = false /\
    if has_rev (rev r) kept then e = SExists /\ led s' = kept
    else e = SOk /\ led s' = (kept ++ [r])%list.
Proof. intros K kh dresp f Hw. exact (storage_create_prune_run K kh dresp f (fun _ => True) Hw). Qed.

Lemma prune_crash_thm :
  forall (K : Type) (kh : forall e : eff, K -> K * resp e * list kev) (dresp : forall e, resp e)
         (f : sfaults),
    wfail f = None ->
    forall (r : release) (m : nat) (s : rstate K),
    dead s = false -> NoDup (revs (led s)) ->
    let h := led s in
    let kept := remove_all (pruned h m) h in
    let s' := fst (run K kh dresp f (storage_create r (S m)) s) in
    let e := snd (run K kh dresp f (storage_create r (S m)) s) in
    if dead s' then exists n, led s' = remove_all (firstn n (pruned h m)) h
    else if has_rev (rev r) kept then e = SExists /\ led s' = kept
    else e = SOk /\ led s' = (kept ++ [r])%list.
Proof. intros K kh dresp f Hw. exact (storage_create_prune_any_run K kh dresp f (fun _ => True) Hw). Qed.

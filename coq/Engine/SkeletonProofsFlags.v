(* Failure-free runs for EVERY assignment of the eight boolean options (also the ones the
   operation does not read), max-history 0 / 2, rollback version 0 / 1. *)
From Coq Require Import List String Bool Arith.
From Helm Require Import Engine.Types Engine.Eff Engine.Ops Engine.Skeleton Engine.SkeletonExpected
                         Engine.SkeletonModel Engine.SkeletonProofs.
Import ListNotations.

Lemma check_all_flags_expected : check_all_flags expected (resolve_table expected) = true.
Proof. vm_compute. reflexivity. Qed.

Lemma model_follows_skeleton_all_flags_lemma :
  forall o a c k r h d co t mh v l ad,
    In o ops -> In mh max_histories -> In v versions -> In l ledgers ->
    follows expected (resolve_table expected) (mkScen o (mkFlags a c k r mh h d co t v) l ad) [] = true.
Proof.
  intros o a c k r h d co t mh v l ad Ho Hmh Hv Hl.
  pose proof check_all_flags_expected as H. unfold check_all_flags in H.
  rewrite forallb_forall in H. specialize (H o Ho).
  rewrite forallb_forall in H. specialize (H mh Hmh).
  rewrite forallb_forall in H. specialize (H v Hv).
  unfold all_flags in H.
  pose proof (fb_spec _ H a) as H1. cbv beta in H1.
  pose proof (fb_spec _ H1 c) as H2. cbv beta in H2.
  pose proof (fb_spec _ H2 k) as H3. cbv beta in H3.
  pose proof (fb_spec _ H3 r) as H4. cbv beta in H4.
  pose proof (fb_spec _ H4 h) as H5. cbv beta in H5.
  pose proof (fb_spec _ H5 d) as H6. cbv beta in H6.
  pose proof (fb_spec _ H6 co) as H7. cbv beta in H7.
  pose proof (fb_spec _ H7 t) as H8. cbv beta in H8.
  rewrite forallb_forall in H8. specialize (H8 l Hl).
  exact (fb_spec _ H8 ad).
Qed.

(* C03 — the hypotheses of the hooks-enabled / after-deletion / history-limit forms of the
   atomic-upgrade theorem are met by concrete cases (also in the harness corpus). *)
From Coq Require Import List String Bool Arith ZArith.
From Helm Require Import Common.Assoc Engine.Types Engine.Eff Engine.Ops Engine.Cluster Engine.Seq
  Engine.SeqProofs Engine.ContainLedger Engine.Contain Engine.ContainAtomicFull Engine.ContainAtomicHooks.
Import ListNotations.
Local Open Scope string_scope.

Definition data_view (w : world) : list (string * option string) :=
  map (fun kv => (fst kv, aget "d:k" (snd kv))) (w_objs w).

Definition good_filter (r : release) : bool := status_eqb (st r) SSuperseded || status_eqb (st r) SDeployed.

(* ---- hooks enabled: install {a,b}; upgrade --atomic to {a',b',c} with a hook hp that runs on
   pre- and post-upgrade (default delete policy = before-hook-creation); PATCH b rejected ---- *)
Definition hx_hp : hook := mkHook (mkRes "ConfigMap" "hp" [("d:h", "1")]) [PreUpgrade; PostUpgrade] 0 [].
Definition hx_w1 : world :=
  fst (fst (run_store_op "rel" "default" (mkOp (OpInstall fl0 1 1 [cmr "a" "v1"; cmr "b" "v1"] [hx_hp]) ContainLedger.nofault no_cf) (mkW [] []))).
Definition hx_mani : list res := [cmr "a" "v2"; cmr "b" "v2"; cmr "c" "v2"].
Definition hx_cf : cfaults := mkCF (Some (VPatch, "ConfigMap/b")) None false.
Definition hx_g : release := mkRelease 1 SDeployed 1 1 [cmr "a" "v1"; cmr "b" "v1"] [hx_hp].

Lemma atomic_upgrade_hooks_example :
  f_atomic fl_atomic = true /\ f_dry_run fl_atomic = false /\ f_no_hooks fl_atomic = false /\ f_max_history fl_atomic = 0 /\
  NoDup (revs (w_led hx_w1)) /\ (forall x, In x (w_led hx_w1) -> rev x <> 0) /\
  max_rev_of (w_led hx_w1) = Some hx_g /\ max_rev_of (filter good_filter (w_led hx_w1)) = Some hx_g /\
  NoDup (map rkey hx_mani) /\ NoDup (map rkey (manifest hx_g)) /\
  hooks_for PreRollback (hooks hx_g) = [] /\ hooks_for PostRollback (hooks hx_g) = [] /\
  hooks_for PreUpgrade [hx_hp] = [hx_hp] /\ hooks_for PostUpgrade [hx_hp] = [hx_hp] /\
  has_policy hx_hp BeforeHookCreation = true /\ String.eqb (h_kind hx_hp) "CustomResourceDefinition" = false /\
  in_keys (rkey (h_res hx_hp)) hx_mani = false /\ in_keys (rkey (h_res hx_hp)) (manifest hx_g) = false /\
  cf_h hx_cf = None /\ cf_wait hx_cf = false /\ (forall key, cf_k hx_cf <> Some (VDelete, key)) /\
  (forall r, In r (manifest hx_g) -> in_keys (rkey r) hx_mani = true) /\
  exists w' t,
    run_store_op "rel" "default" (mkOp (OpUpgrade fl_atomic 2 2 hx_mani [hx_hp]) ContainLedger.nofault hx_cf) hx_w1 = (w', OErr EOtherErr, t) /\
    statuses (w_led w') = [(1, SSuperseded); (2, SFailed); (3, SDeployed)] /\
    data_view w' = [("ConfigMap/a", Some "v1"); ("ConfigMap/b", Some "v1"); ("ConfigMap/hp", None)].
Proof.
  do 4 (split; [reflexivity|]).
  split; [vm_compute; repeat constructor; simpl; tauto|].
  split; [vm_compute; intros x [<-|[]]; discriminate|].
  split; [vm_compute; reflexivity|]. split; [vm_compute; reflexivity|].
  split; [vm_compute; repeat constructor; simpl; intuition discriminate|].
  split; [vm_compute; repeat constructor; simpl; intuition discriminate|].
  do 10 (split; [vm_compute; reflexivity|]).
  split; [intros key; discriminate|].
  split; [intros r [<-|[<-|[]]]; vm_compute; reflexivity|].
  eexists. eexists. vm_compute. repeat split.
Qed.

(* ---- after the deletion phase: install {a,b}; upgrade --atomic to {a'} (drops b) whose WAIT
   fails: the update has deleted b, the automatic rollback creates it again (K6 does not bite;
   compare C03_atomic_dropped_refuted, where PATCH a is rejected before the deletion phase) ---- *)
Definition ad_w1 : world :=
  fst (fst (run_store_op "rel" "default" (mkOp (OpInstall fl0 1 1 [cmr "a" "v1"; cmr "b" "v1"] []) ContainLedger.nofault no_cf) (mkW [] []))).
Definition ad_g : release := mkRelease 1 SDeployed 1 1 [cmr "a" "v1"; cmr "b" "v1"] [].
Definition ad_mani : list res := [cmr "a" "v2"].
Definition ad_cf : cfaults := mkCF None None true.

Lemma atomic_upgrade_after_deletion_example :
  max_rev_of (w_led ad_w1) = Some ad_g /\ max_rev_of (filter good_filter (w_led ad_w1)) = Some ad_g /\
  st ad_g = SDeployed /\ in_keys "ConfigMap/b" ad_mani = false /\
  cf_k ad_cf = None /\ cf_h ad_cf = None /\ cf_wait ad_cf = true /\
  (forall r live, In r (manifest ad_g) -> in_keys (rkey r) ad_mani = false ->
                  aget (rkey r) (w_objs ad_w1) = Some live -> live_keep live = false) /\
  exists w' t,
    run_store_op "rel" "default" (mkOp (OpUpgrade fl_atomic 2 2 ad_mani []) ContainLedger.nofault ad_cf) ad_w1 = (w', OErr EOtherErr, t) /\
    statuses (w_led w') = [(1, SSuperseded); (2, SFailed); (3, SDeployed)] /\
    data_view w' = [("ConfigMap/a", Some "v1"); ("ConfigMap/b", Some "v1")].
Proof.
  split; [vm_compute; reflexivity|]. split; [vm_compute; reflexivity|].
  do 5 (split; [vm_compute; reflexivity|]).
  split.
  { intros r live [<-|[<-|[]]] Hk; [vm_compute in Hk; discriminate Hk|]. vm_compute. intros E. inversion E. reflexivity. }
  eexists. eexists. vm_compute. repeat split.
Qed.

(* ---- with a history limit: install; upgrade; upgrade (1:superseded 2:superseded 3:deployed);
   upgrade --atomic --history-max 2 whose wait fails: the upgrade prunes 1 and 2 before it stores
   its revision, the deployed revision 3 is kept and restored as revision 5 ---- *)
Definition hl_w3 : world :=
  match List.rev (run_history "rel" "default"
          [ clean (OpInstall fl0 1 1 [cmr "a" "v1"] []);
            clean (OpUpgrade fl0 2 2 [cmr "a" "v2"] []);
            clean (OpUpgrade fl0 3 3 [cmr "a" "v3"] []) ] (mkW [] [])) with
  | (w, _, _) :: _ => w
  | [] => mkW [] []
  end.
Definition hl_fl : flags := mkFlags true false false false 2 false false false false 0.
Definition hl_g : release := mkRelease 3 SDeployed 3 3 [cmr "a" "v3"] [].

Lemma atomic_upgrade_history_limit_example :
  f_atomic hl_fl = true /\ f_max_history hl_fl = 2 /\
  statuses (w_led hl_w3) = [(1, SSuperseded); (2, SSuperseded); (3, SDeployed)] /\
  max_rev_of (filter good_filter (w_led hl_w3)) = Some hl_g /\ st hl_g = SDeployed /\
  exists w' t,
    run_store_op "rel" "default" (mkOp (OpUpgrade hl_fl 4 4 [cmr "a" "v4"] []) ContainLedger.nofault (mkCF None None true)) hl_w3
      = (w', OErr EOtherErr, t) /\
    statuses (w_led w') = [(3, SSuperseded); (4, SFailed); (5, SDeployed)] /\
    data_view w' = [("ConfigMap/a", Some "v3")].
Proof.
  split; [reflexivity|]. split; [reflexivity|].
  split; [vm_compute; reflexivity|]. split; [vm_compute; reflexivity|]. split; [reflexivity|].
  eexists. eexists. vm_compute. repeat split.
Qed.

(* ---- a failing hook: upgrade --atomic whose post-upgrade hook hq fails (hq is deleted on
   failure); the target revision has no rollback hooks ---- *)
Definition hf_hq : hook := mkHook (mkRes "ConfigMap" "hq" [("d:h", "1")]) [PostUpgrade] 0 [HookFailed].
Definition hf_cf : cfaults := mkCF None (Some ("hq", 0)) false.

Lemma atomic_upgrade_hook_fault_example :
  cf_k hf_cf = None /\ cf_wait hf_cf = false /\ f_no_hooks fl_atomic = false /\
  max_rev_of (filter good_filter (w_led ad_w1)) = Some ad_g /\
  hooks_for PreRollback (hooks ad_g) = [] /\ hooks_for PostRollback (hooks ad_g) = [] /\
  (forall r, In r (manifest ad_g) -> in_keys (rkey r) [cmr "a" "v2"; cmr "b" "v2"] = true) /\
  exists w' t,
    run_store_op "rel" "default" (mkOp (OpUpgrade fl_atomic 2 2 [cmr "a" "v2"; cmr "b" "v2"] [hf_hq]) ContainLedger.nofault hf_cf) ad_w1
      = (w', OErr EOtherErr, t) /\
    statuses (w_led w') = [(1, SSuperseded); (2, SFailed); (3, SDeployed)] /\
    data_view w' = [("ConfigMap/a", Some "v1"); ("ConfigMap/b", Some "v1")].
Proof.
  do 3 (split; [reflexivity|]).
  split; [vm_compute; reflexivity|]. do 2 (split; [vm_compute; reflexivity|]).
  split; [intros r [<-|[<-|[]]]; vm_compute; reflexivity|].
  eexists. eexists. vm_compute. repeat split.
Qed.

(* ---- well-behaved ROLLBACK hooks in the revision rolled back to: install {a,b} with the hook hr
   on pre- and post-rollback (default policy); upgrade --atomic to {a',b'} with PATCH b rejected:
   the recovery runs hr twice and restores revision 1 ---- *)
Definition rh_hr : hook := mkHook (mkRes "ConfigMap" "hr" [("d:h", "1")]) [PreRollback; PostRollback] 0 [].
Definition rh_w1 : world :=
  fst (fst (run_store_op "rel" "default" (mkOp (OpInstall fl0 1 1 [cmr "a" "v1"; cmr "b" "v1"] [rh_hr]) ContainLedger.nofault no_cf) (mkW [] []))).
Definition rh_g : release := mkRelease 1 SDeployed 1 1 [cmr "a" "v1"; cmr "b" "v1"] [rh_hr].
Definition rh_mani : list res := [cmr "a" "v2"; cmr "b" "v2"].

Lemma atomic_upgrade_rollback_hooks_example :
  f_no_hooks fl_atomic = false /\
  max_rev_of (filter good_filter (w_led rh_w1)) = Some rh_g /\
  hooks_for PreRollback (hooks rh_g) = [rh_hr] /\ hooks_for PostRollback (hooks rh_g) = [rh_hr] /\
  has_policy rh_hr BeforeHookCreation = true /\ String.eqb (h_kind rh_hr) "CustomResourceDefinition" = false /\
  in_keys (rkey (h_res rh_hr)) (manifest rh_g) = false /\ in_keys (rkey (h_res rh_hr)) rh_mani = false /\
  hooks_for PreUpgrade [rh_hr] = [] /\ hooks_for PostUpgrade [rh_hr] = [] /\
  cf_h hx_cf = None /\ cf_wait hx_cf = false /\
  (forall r, In r (manifest rh_g) -> in_keys (rkey r) rh_mani = true) /\
  exists w' t,
    run_store_op "rel" "default" (mkOp (OpUpgrade fl_atomic 2 2 rh_mani [rh_hr]) ContainLedger.nofault hx_cf) rh_w1 = (w', OErr EOtherErr, t) /\
    statuses (w_led w') = [(1, SSuperseded); (2, SFailed); (3, SDeployed)] /\
    data_view w' = [("ConfigMap/a", Some "v1"); ("ConfigMap/b", Some "v1"); ("ConfigMap/hr", None)].
Proof.
  split; [reflexivity|]. split; [vm_compute; reflexivity|].
  do 10 (split; [vm_compute; reflexivity|]).
  split; [intros r [<-|[<-|[]]]; vm_compute; reflexivity|].
  eexists. eexists. vm_compute. repeat split.
Qed.

(* C03 (stretch) — a failed atomic install of a new release ends with an empty ledger and
   none of the manifest's resources in the cluster (object-store cluster, one-shot fault that
   is not a DELETE fault, no keep annotations, no delete-event hooks: see K9). *)
From Coq Require Import List String Bool Arith ZArith Lia.
From Helm Require Import Common.Assoc Engine.Types Engine.Eff Engine.Ops Engine.Cluster Engine.Seq
  Engine.SeqProofs Engine.HooksProofsTrace Engine.HooksProofsGate Engine.ContainLedger Engine.ContainProofs
  Engine.ContainCluster Engine.ContainWorld.
Import ListNotations.
Local Open Scope prog_scope.

(* ---- programs whose only storage write re-records one release ---- *)
Definition rec_only (rl : release) (e : eff) : Prop :=
  match e with
  | SCreate _ | SDelete _ => False
  | SUpdate x => x = rl
  | _ => True
  end.

Lemma lrun_rec_only {A} dresp rl (p : prog A) : only (rec_only rl) p ->
  forall l' a, @lrun dresp A p [rl] l' a -> l' = [rl].
Proof.
  induction p as [x|e k IH]; simpl; intros Ho l' a H.
  - apply lrun_ret_inv in H. tauto.
  - destruct Ho as [He Hk]. apply lrun_inv in H. destruct H as [[Hc [r H]]|[Hc H]].
    + eapply IH; eauto.
    + assert (E : sled dresp e [rl] = [rl]).
      { unfold sled. destruct e; simpl in *; try contradiction; try discriminate; auto.
        subst. unfold has_rev. simpl. rewrite Nat.eqb_refl. reflexivity. }
      rewrite E in H. eapply IH; eauto.
Qed.

Lemma delete_hook_rec rl h p : only (rec_only rl) (delete_hook_by_policy h p).
Proof.
  unfold delete_hook_by_policy.
  destruct (String.eqb (h_kind h) "CustomResourceDefinition"); simpl; auto.
  destruct (has_policy h p); simpl; auto. split; auto. intros []; simpl; auto.
Qed.

Lemma delete_hooks_rec rl p hs : only (rec_only rl) (delete_hooks_by_policy hs p).
Proof.
  induction hs as [|h t IH]; simpl; auto.
  apply only_bind; [apply delete_hook_rec|]. intros []; simpl; auto.
Qed.

Lemma loop_rec rl ev : forall todo done, only (rec_only rl) (exec_hooks_loop rl ev todo done).
Proof.
  induction todo as [|h t IH]; intros done; simpl.
  - apply delete_hooks_rec.
  - apply only_bind; [apply delete_hook_rec|].
    intros []; simpl; auto. split; [reflexivity|]. intros _. split; auto.
    intros []; simpl; auto. split; auto.
    intros []; [apply IH|].
    apply only_bind; [apply delete_hook_rec|]. intros _.
    apply only_bind; [apply delete_hooks_rec|]. intros _. exact I.
Qed.

Lemma run_hooks_rec fl rl ev : only (rec_only rl) (run_hooks fl rl ev).
Proof. unfold run_hooks, exec_hook. destruct (f_no_hooks fl); [exact I|apply loop_rec]. Qed.

(* hooks that do nothing: disabled, or none selected *)
Lemma run_hooks_nothing fl rl ev :
  f_no_hooks fl = true \/ hooks_for ev (hooks rl) = [] -> run_hooks fl rl ev = Ret true.
Proof.
  unfold run_hooks, exec_hook. intros [->| ->]; auto. destruct (f_no_hooks fl); reflexivity.
Qed.

Section Atomic.
  Variable rn ns : string.
  Notation wrun := (wrun rn ns).

  Ltac wbind H l1 k1 a H1 := apply wrun_bind_inv in H; destruct H as (l1 & k1 & a & H1 & H).
  Ltac wret H := apply wrun_ret_inv in H; destruct H as (? & ? & ?); subst.
  Ltac wsto H := apply wrun_storage_inv in H; [|reflexivity].
  Ltac wclu H := apply wrun_cluster_inv in H; [|reflexivity].
  Ltac case_if H := match type of H with ContainWorld.wrun _ _ (if ?c then _ else _) _ _ _ _ _ => destruct c eqn:? end.

  Lemma hooks_world fl rl ev k l' k' b :
    wrun (run_hooks fl rl ev) [rl] k l' k' b -> l' = [rl] /\ fault_le k' k.
  Proof.
    intros H. split.
    - eapply lrun_rec_only; [apply run_hooks_rec|eapply wrun_lrun; eauto].
    - destruct (wrun_krun _ _ _ _ _ _ _ _ H) as [tr Hk]. eapply krun_fault; eauto.
  Qed.

  Lemma k_delete_ok : forall rs k muts, nodel k -> snd (fst (k_delete k rs true muts)) = true.
  Proof.
    induction rs as [|r t IH]; simpl; intros k muts Hn; auto.
    rewrite (nodel_hits _ _ Hn). destruct (amem (rkey r) (objs k)); apply IH; auto.
  Qed.

  Lemma k_existing_objs : forall rs k take acc, objs (fst (k_existing rn ns k rs take acc)) = objs k.
  Proof.
    induction rs as [|r t IH]; simpl; intros k take acc; auto.
    destruct (fault_hits k VGet (rkey r)); auto.
    destruct (aget (rkey r) (objs k)); [|apply IH].
    destruct (take || owned_by rn ns f); [apply IH|reflexivity].
  Qed.

  Lemma filter_no_keep mani :
    (forall r, In r mani -> manifest_keep r = false) -> filter (fun r => negb (manifest_keep r)) mani = mani.
  Proof.
    induction mani as [|x t IH]; simpl; intros H; auto.
    rewrite (H x (or_introl eq_refl)). simpl. f_equal. apply IH. auto.
  Qed.

  (* the automatic uninstall removes the revision and every resource of the manifest *)
  Lemma uninstall_cleans fl x k l' k' out :
    f_dry_run fl = false -> f_keep_history fl = false ->
    st x <> SUninstalled ->
    (forall r, In r (manifest x) -> manifest_keep r = false) ->
    (f_no_hooks fl = true \/ (hooks_for PreDelete (hooks x) = [] /\ hooks_for PostDelete (hooks x) = [])) ->
    nodel k ->
    wrun (uninstall fl) [x] k l' k' out ->
    l' = [] /\ forall r, In r (manifest x) -> amem (rkey r) (objs k') = false.
  Proof.
    intros Hdry Hkeep Hst Hnk Hnh Hn H.
    unfold uninstall in H. rewrite Hdry in H. cbv beta iota zeta in H.
    wsto H. unfold sresp, sled in H. simpl in H.
    assert (Es : status_eqb (st x) SUninstalled = false).
    { destruct (st x); simpl; auto. now elim Hst. }
    rewrite Es in H.
    assert (Hpre : run_hooks fl (with_status x SUninstalling) PreDelete = Ret true).
    { apply run_hooks_nothing. simpl. tauto. }
    assert (Hpost : run_hooks fl (with_status x SUninstalling) PostDelete = Ret true).
    { apply run_hooks_nothing. simpl. tauto. }
    rewrite Hpre, Hpost in H. simpl in H.
    (* record_release uninstalling *)
    wsto H. unfold sresp, sled in H. simpl in H. rewrite Nat.eqb_refl in H. simpl in H.
    rewrite (filter_no_keep _ Hnk) in H. rewrite Hkeep in H.
    destruct (manifest x) as [|m0 mt] eqn:Em.
    - simpl in H. wclu H. unfold kresp_of, kstate_of in H. simpl in H.
      wsto H. unfold sresp, sled in H. simpl in H. rewrite Nat.eqb_refl in H. simpl in H.
      simpl in H. wret H. split; auto. intros r [].
    - simpl in H. wclu H.
      set (kd := KDelete (m0 :: mt)) in *.
      assert (Eok : kresp_of rn ns kd k = true).
      { unfold kresp_of, kd. simpl.
        pose proof (k_delete_ok (m0 :: mt) k [] Hn) as G. simpl in G.
        destruct (fault_hits k VDelete (rkey m0)); [|destruct (amem (rkey m0) (objs k))];
          match goal with |- context [k_delete ?a ?b ?c ?d] => destruct (k_delete a b c d) as [[? ?] ?] end; exact G. }
      assert (Habs : forall r, In r (m0 :: mt) -> amem (rkey r) (objs (kstate_of rn ns kd k)) = false).
      { intros r Hin. unfold kstate_of, kd.
        change (fst (fst (kube_handle rn ns (KDelete (m0 :: mt)) k)))
          with (fst (fst (let '(k', ok, muts) := k_delete k (m0 :: mt) true [] in (k', ok, [KCall "delete" muts])))).
        pose proof (k_delete_removes (m0 :: mt) k true [] Hn r Hin) as G.
        destruct (k_delete k (m0 :: mt) true []) as [[k3 ok] mm]. exact G. }
      rewrite Eok in H. simpl in H.
      wclu H. unfold kresp_of, kstate_of in H. simpl in H.
      wsto H. unfold sresp, sled in H. simpl in H. rewrite Nat.eqb_refl in H. simpl in H.
      simpl in H. wret H. split; auto.
  Qed.

  Lemma install_fail_cleans fl rel k l' k' out :
    f_atomic fl = true -> st rel <> SUninstalled ->
    (forall r, In r (manifest rel) -> manifest_keep r = false) ->
    (f_no_hooks fl = true \/ (hooks_for PreDelete (hooks rel) = [] /\ hooks_for PostDelete (hooks rel) = [])) ->
    nodel k ->
    wrun (install_fail fl rel) [rel] k l' k' out ->
    l' = [] /\ forall r, In r (manifest rel) -> amem (rkey r) (objs k') = false.
  Proof.
    intros Hat Hst Hnk Hnh Hn H. unfold install_fail in H. rewrite Hat in H.
    wbind H l1 k1 u Hu. wret H.
    eapply uninstall_cleans; [..|exact Hu]; auto.
  Qed.

  Theorem atomic_install_wrun fl cid vid mani hks k0 l' k' c :
    f_atomic fl = true -> f_dry_run fl = false ->
    (forall r, In r mani -> manifest_keep r = false) ->
    (f_no_hooks fl = true \/ (hooks_for PreDelete hks = [] /\ hooks_for PostDelete hks = [])) ->
    nodel k0 ->
    (forall r, In r mani -> amem (rkey r) (objs k0) = false) ->
    wrun (install rn ns fl cid vid mani hks) [] k0 l' k' (OErr c) ->
    l' = [] /\ forall r, In r mani -> amem (rkey r) (objs k') = false.
  Proof.
    intros Hat Hdry Hnk Hnh Hn Habs H.
    unfold install in H. rewrite Hdry in H. cbv beta iota zeta delta [negb] in H.
    wbind H la ka avail Hav.
    wsto Hav. unfold sresp, sled in Hav. simpl in Hav. wret Hav. cbv beta iota in H.
    wbind H lb kb adopt Ha.
    assert (lb = [] /\ objs kb = objs k0 /\ fault_le kb k0) as (-> & Eo & Fb).
    { case_if Ha.
      - unfold perform in Ha. wclu Ha. wret Ha. split; auto. split.
        + unfold kstate_of. simpl.
          pose proof (k_existing_objs (stamp_all rn ns mani) k0 (f_take_ownership fl) []) as G.
          destruct (k_existing rn ns k0 (stamp_all rn ns mani) (f_take_ownership fl) []) as [k1 r1]. exact G.
        + apply kube_handle_fault.
      - wret Ha. repeat split; auto. apply fault_le_refl. }
    clear Ha.
    assert (Habs1 : forall r, In r mani -> amem (rkey r) (objs kb) = false) by (intros r Hr; rewrite Eo; auto).
    assert (Hnb : nodel kb) by (eapply nodel_le; eauto).
    destruct adopt as [adopted|]; [|wret H; auto].
    wbind H lc kc rr Hc.
    set (rel := mkRelease 1 SPendingInstall cid vid mani hks) in *.
    assert (lc = [] /\ kc = kb /\ rr = Some rel) as (-> & -> & ->).
    { case_if Hc.
      - wsto Hc. unfold sresp, sled in Hc. simpl in Hc. wret Hc. auto.
      - wret Hc. auto. }
    clear Hc.
    wbind H ld kd e He.
    unfold storage_create, perform in He. wsto He. unfold sresp, sled in He. simpl in He. wret He.
    assert (Hst : st rel <> SUninstalled) by discriminate.
    assert (Hfail : forall k lx kx o, nodel k -> wrun (install_fail fl rel) [rel] k lx kx o ->
                     lx = [] /\ forall r, In r mani -> amem (rkey r) (objs kx) = false).
    { intros k lx kx o Hk Hf. eapply (install_fail_cleans fl rel); eauto. }
    wbind H l2 k2 pre Hpre.
    destruct (hooks_world _ _ _ _ _ _ _ Hpre) as [-> F2].
    assert (Hn2 : nodel k2) by (eapply nodel_le; eauto).
    destruct pre; cbv beta iota in H; [|eapply Hfail; eauto].
    wbind H l3 k3 ok Hok.
    assert (l3 = [rel] /\ fault_le k3 k2) as [-> F3].
    { destruct (stamp_all rn ns mani).
      - wret Hok. split; auto. apply fault_le_refl.
      - destruct adopted.
        + unfold perform in Hok. wclu Hok. wret Hok. split; auto. apply kube_handle_fault.
        + wclu Hok. wret Hok. split; auto. apply kube_handle_fault. }
    assert (Hn3 : nodel k3) by (eapply nodel_le; eauto).
    destruct ok; cbv beta iota in H; [|eapply Hfail; eauto].
    unfold perform in H. simpl in H. wclu H.
    set (kw := KWait (stamp_all rn ns mani)) in *.
    assert (Hn4 : nodel (kstate_of rn ns kw k3)) by (eapply nodel_le; [apply kube_handle_fault|exact Hn3]).
    destruct (kresp_of rn ns kw k3); cbv beta iota in H; [|eapply Hfail; eauto].
    wbind H l5 k5 post Hpost.
    destruct (hooks_world _ _ _ _ _ _ _ Hpost) as [-> F5].
    assert (Hn5 : nodel k5) by (eapply nodel_le; eauto).
    destruct post; cbv beta iota in H; [|eapply Hfail; eauto].
    (* success: not an error *)
    wsto H. wret H. discriminate.
  Qed.
End Atomic.

(* in terms of the interpreter *)
Theorem atomic_install :
  forall rn ns fl cid vid mani hks cf objs0 w' c t,
    f_atomic fl = true -> f_dry_run fl = false ->
    (forall r, In r mani -> manifest_keep r = false) ->
    (f_no_hooks fl = true \/ (hooks_for PreDelete hks = [] /\ hooks_for PostDelete hks = [])) ->
    (forall key, cf_k cf <> Some (VDelete, key)) ->
    (forall r, In r mani -> amem (rkey r) objs0 = false) ->
    run_store_op rn ns (mkOp (OpInstall fl cid vid mani hks) nofault cf) (mkW [] objs0) = (w', OErr c, t) ->
    w_led w' = [] /\ forall r, In r mani -> amem (rkey r) (w_objs w') = false.
Proof.
  intros rn ns fl cid vid mani hks cf objs0 w' c t Hat Hdry Hnk Hnh Hnd Habs H.
  unfold run_store_op in H. cbn [oc_op oc_sf oc_cf w_led w_objs] in H.
  set (k0 := mkK objs0 (cf_k cf) (cf_h cf) (cf_wait cf)) in *.
  destruct (run_op kstate (kube_handle rn ns) dead_resp rn ns (OpInstall fl cid vid mani hks) nofault [] k0)
    as [[[l k] o] t'] eqn:E.
  inversion H; subst. clear H.
  unfold run_op in E. cbn [op_prog] in E.
  destruct (run kstate (kube_handle rn ns) dead_resp nofault (install rn ns fl cid vid mani hks)
                (mkR [] k0 0 0 false [])) as [s o'] eqn:E2.
  apply run_wrun in E2; [|reflexivity]. destruct E2 as [Hw Hd]. cbn [led ks] in Hw.
  rewrite Hd in E. inversion E; subst. clear E. cbn [w_led w_objs].
  refine (atomic_install_wrun rn ns fl cid vid mani hks k0 (led s) (ks s) c Hat Hdry Hnk Hnh _ Habs Hw).
  unfold nodel, k0. cbn [kfault]. destruct (cf_k cf) as [[v key]|] eqn:Ek; auto. destruct v; auto.
  exfalso. now apply (Hnd key).
Qed.

(* ---- example: install --atomic {a,b} with CREATE b rejected ---- *)
Local Open Scope string_scope.
Definition ai_fl : flags := mkFlags true false false false 0 false false false false 0.
Definition ai_mani : list res := [mkRes "ConfigMap" "a" [("d:k", "v1")]; mkRes "ConfigMap" "b" [("d:k", "v1")]].
Definition ai_cf : cfaults := mkCF (Some (VCreate, "ConfigMap/b")) None false.

Lemma atomic_install_example :
  f_atomic ai_fl = true /\ f_dry_run ai_fl = false /\
  (forall r, In r ai_mani -> manifest_keep r = false) /\
  (forall key, cf_k ai_cf <> Some (VDelete, key)) /\
  exists w' t, run_store_op "rel" "default" (mkOp (OpInstall ai_fl 1 1 ai_mani []) nofault ai_cf) (mkW [] [])
               = (w', OErr EOtherErr, t) /\ w_led w' = [] /\ w_objs w' = [].
Proof.
  split; [reflexivity|]. split; [reflexivity|]. split.
  { intros r [<-|[<-|[]]]; reflexivity. }
  split; [intros key; discriminate|].
  eexists. eexists. vm_compute. repeat split.
Qed.

(* Release engine — the cluster as an object store: what kube.Client does against an API
   server for built-in kinds whose payload is maps of scalars (pkg/kube/client.go:
   Create/perform, update, rdelete; pkg/action/validate.go: existingResourceConflict,
   requireAdoption), with one-shot request faults. *)
From Coq Require Import List String Bool Arith ZArith.
From Helm Require Import Common.Assoc Engine.Types Engine.Eff.
Import ListNotations.

Inductive verb := VGet | VCreate | VPatch | VDelete.

Definition verb_eqb (a b : verb) : bool :=
  match a, b with
  | VGet, VGet | VCreate, VCreate | VPatch, VPatch | VDelete, VDelete => true
  | _, _ => false
  end.

(* one kube.Interface call and the effective mutations it made *)
Inductive kev :=
| KCall (name : string) (muts : list (verb * string)).

Record kstate := mkK {
  objs : list (string * fields);
  kfault : option (verb * string);          (* the first matching request is rejected *)
  hfault : option (string * nat);           (* the n-th (0-based) watch of the named hook fails *)
  waitfail : bool }.                        (* the first resource wait fails *)

Definition fault_hits (k : kstate) (v : verb) (key : string) : bool :=
  match kfault k with
  | Some (v', key') => verb_eqb v v' && String.eqb key key'
  | None => false
  end.

Definition clear_kfault (k : kstate) : kstate := mkK (objs k) None (hfault k) (waitfail k).
Definition set_objs (k : kstate) (o : list (string * fields)) : kstate :=
  mkK o (kfault k) (hfault k) (waitfail k).

(* field maps are unordered *)
Definition fields_sub (a b : fields) : bool :=
  forallb (fun kv => match aget (fst kv) b with Some v => String.eqb v (snd kv) | None => false end) a.
Definition fields_eqb (a b : fields) : bool := fields_sub a b && fields_sub b a.

(* strategic three-way merge on a flat map of scalars *)
Definition three_way (old new live : fields) : fields :=
  let added := fold_left (fun acc kv => aset (fst kv) (snd kv) acc) new live in
  fold_left (fun acc kv => if amem (fst kv) new then acc else adel (fst kv) acc) old added.

(* CreateThreeWayMergePatch yields a non-empty patch *)
Definition patch_needed (old new live : fields) : bool :=
  negb (fields_sub new live) || existsb (fun kv => negb (amem (fst kv) new)) old.

Definition find_res (key : string) (rs : list res) : option res :=
  find (fun r => String.eqb (rkey r) key) rs.

Section Handlers.
  Variable rn ns : string.

  (* existingResourceConflict / requireAdoption: stops at the first error *)
  Fixpoint k_existing (k : kstate) (rs : list res) (take : bool) (acc : list res)
    : kstate * option (list res) :=
    match rs with
    | [] => (k, Some acc)
    | r :: t =>
        if fault_hits k VGet (rkey r) then (clear_kfault k, None)
        else match aget (rkey r) (objs k) with
             | None => k_existing k t take acc
             | Some live =>
                 if take || owned_by rn ns live then k_existing k t take (acc ++ [r])%list
                 else (k, None)
             end
    end.

  (* Client.Create: every resource is attempted *)
  Fixpoint k_create (k : kstate) (rs : list res) (ok : bool) (muts : list (verb * string))
    : kstate * bool * list (verb * string) :=
    match rs with
    | [] => (k, ok, muts)
    | r :: t =>
        if fault_hits k VCreate (rkey r) then k_create (clear_kfault k) t false muts
        else if amem (rkey r) (objs k) then k_create k t false muts
        else k_create (set_objs k (aset (rkey r) (r_fields r) (objs k))) t ok
                      (muts ++ [(VCreate, rkey r)])%list
    end.

  (* first phase of Client.update: sequential over the target, stops at hard errors,
     collects patch errors.  Result: state, hard error?, patch errors?, created, mutations *)
  Fixpoint k_update_targets (k : kstate) (cur tgt created : list res) (patcherr : bool)
           (muts : list (verb * string))
    : kstate * bool * bool * list res * list (verb * string) :=
    match tgt with
    | [] => (k, false, patcherr, created, muts)
    | r :: t =>
        let key := rkey r in
        if fault_hits k VGet key then (clear_kfault k, true, patcherr, created, muts)
        else match aget key (objs k) with
             | None =>
                 let created' := (created ++ [r])%list in
                 if fault_hits k VCreate key then (clear_kfault k, true, patcherr, created', muts)
                 else k_update_targets (set_objs k (aset key (r_fields r) (objs k))) cur t created'
                                       patcherr (muts ++ [(VCreate, key)])%list
             | Some live =>
                 match find_res key cur with
                 | None => (k, true, patcherr, created, muts)      (* "no <kind> with the name found" *)
                 | Some o =>
                     if patch_needed (r_fields o) (r_fields r) live then
                       if fault_hits k VPatch key
                       then k_update_targets (clear_kfault k) cur t created true muts
                       else
                         let merged := three_way (r_fields o) (r_fields r) live in
                         let muts' := if fields_eqb merged live then muts else (muts ++ [(VPatch, key)])%list in
                         k_update_targets (set_objs k (aset key merged (objs k))) cur t created patcherr muts'
                     else k_update_targets k cur t created patcherr muts
                 end
             end
    end.

  (* second phase: delete what is in the original but not in the target; every error is skipped *)
  Fixpoint k_update_deletes (k : kstate) (dels : list res) (muts : list (verb * string))
    : kstate * list (verb * string) :=
    match dels with
    | [] => (k, muts)
    | r :: t =>
        let key := rkey r in
        if fault_hits k VGet key then k_update_deletes (clear_kfault k) t muts
        else match aget key (objs k) with
             | None => k_update_deletes k t muts
             | Some live =>
                 if live_keep live then k_update_deletes k t muts
                 else if fault_hits k VDelete key then k_update_deletes (clear_kfault k) t muts
                 else k_update_deletes (set_objs k (adel key (objs k))) t (muts ++ [(VDelete, key)])%list
             end
    end.

  Definition k_update (k : kstate) (cur tgt : list res) : kstate * (bool * list res) * list (verb * string) :=
    let '(k1, hard, patcherr, created, muts) := k_update_targets k cur tgt [] false [] in
    if hard || patcherr then (k1, (false, created), muts)
    else
      let dels := filter (fun o => negb (in_keys (rkey o) tgt)) cur in
      let '(k2, muts2) := k_update_deletes k1 dels muts in
      (k2, (true, created), muts2).

  (* rdelete: every resource is attempted; not-found counts as deleted; empty list is an error *)
  Fixpoint k_delete (k : kstate) (rs : list res) (ok : bool) (muts : list (verb * string))
    : kstate * bool * list (verb * string) :=
    match rs with
    | [] => (k, ok, muts)
    | r :: t =>
        let key := rkey r in
        if fault_hits k VDelete key then k_delete (clear_kfault k) t false muts
        else if amem key (objs k)
             then k_delete (set_objs k (adel key (objs k))) t ok (muts ++ [(VDelete, key)])%list
             else k_delete k t ok muts
    end.

  Definition dead_resp (e : eff) : resp e :=
    match e with
    | SHistory | SDeployedAll => []
    | SGet _ => None
    | SCreate _ | SUpdate _ | SDelete _ => SFail
    | KExisting _ _ => None
    | KCreate _ => false
    | KUpdate _ _ => (false, [])
    | KDelete _ => false
    | KWait _ | KWaitDelete _ => false
    | KHookWatch _ _ => false
    end.

  (* the cluster handler: state, response, log of calls *)
  Definition kube_handle (e : eff) (k : kstate) : kstate * resp e * list kev :=
    match e return kstate * resp e * list kev with
    | KExisting rs take =>
        let '(k', r) := k_existing k rs take [] in (k', r, [])
    | KCreate rs =>
        match rs with
        | [] => (k, false, [KCall "create" []])
        | _ => let '(k', ok, muts) := k_create k rs true [] in (k', ok, [KCall "create" muts])
        end
    | KUpdate cur tgt =>
        let '(k', r, muts) := k_update k cur tgt in (k', r, [KCall "update" muts])
    | KDelete rs =>
        match rs with
        | [] => (k, false, [KCall "delete" []])
        | _ => let '(k', ok, muts) := k_delete k rs true [] in (k', ok, [KCall "delete" muts])
        end
    | KWait _ =>
        if waitfail k then (mkK (objs k) (kfault k) (hfault k) false, false, [KCall "wait" []])
        else (k, true, [KCall "wait" []])
    | KWaitDelete _ => (k, true, [])
    | KHookWatch ev h =>
        match hfault k with
        | Some (n, cnt) =>
            if String.eqb n (h_name h) then
              match cnt with
              | 0 => (mkK (objs k) (kfault k) None (waitfail k), false, [KCall "hookwatch" []])
              | S c => (mkK (objs k) (kfault k) (Some (n, c)) (waitfail k), true, [KCall "hookwatch" []])
              end
            else (k, true, [KCall "hookwatch" []])
        | None => (k, true, [KCall "hookwatch" []])
        end
    | other => (k, dead_resp other, [])
    end.
End Handlers.

(* C06 — rollback and uninstall of the richer model follow the generated flow table, and install /
   upgrade with exactly the n-th effect failing, for every n (by computation). *)
From Coq Require Import List String Bool Arith NArith.
From Helm Require Import Engine.Types Engine.DryOps Engine.DryFlow Engine.DryFlowModel.
From Helm Require Import Gen.DryFlow Gen.DryRunSpellings.
Import ListNotations.
Local Open Scope string_scope.

Lemma rollback_fact :
  forallb (fun on => forallb (fun v => forallb (fun h =>
    rollback_ok flow [] None (mkXF on "" 2 v) h) sc_hists) [0; 1]) (subsets rollback_flags) = true.
Proof. vm_cast_no_check (eq_refl true). Qed.

Lemma rollback_follows :
  forall on v h, In on (subsets rollback_flags) -> In v [0; 1] -> In h sc_hists ->
    rollback_ok flow [] None (mkXF on "" 2 v) h = true.
Proof. exact (lift3 _ _ _ _ rollback_fact). Qed.

Lemma uninstall_fact :
  forallb (fun on => forallb (fun h => uninstall_ok flow [] None (mkXF on "" 0 0) h) sc_hists) (subsets uninstall_flags) = true.
Proof. vm_cast_no_check (eq_refl true). Qed.

Lemma uninstall_follows :
  forall on h, In on (subsets uninstall_flags) -> In h sc_hists -> uninstall_ok flow [] None (mkXF on "" 0 0) h = true.
Proof. exact (lift2 _ _ _ uninstall_fact). Qed.

Lemma install_fail_fact :
  forallb (fun on => forallb (fun opt =>
    install_fails_ok flow install_dry_spellings (mkXG true true) (mkXF on opt 0 0) (sc_chart sc_crds 1) [])
    [""; "server"]) (subsets fail_install_flags) = true.
Proof. vm_cast_no_check (eq_refl true). Qed.

Lemma install_fail_follows :
  forall on opt, In on (subsets fail_install_flags) -> In opt [""; "server"] ->
    install_fails_ok flow install_dry_spellings (mkXG true true) (mkXF on opt 0 0) (sc_chart sc_crds 1) [] = true.
Proof. exact (lift2 _ _ _ install_fail_fact). Qed.

Lemma upgrade_fail_fact :
  forallb (fun on => forallb (fun opt =>
    upgrade_fails_ok flow upgrade_dry_spellings (mkXG true false) (mkXF on opt 2 0) (sc_chart sc_crds 1)
                     [sc_rel 1 SSuperseded; sc_rel 2 SDeployed])
    [""; "server"]) (subsets fail_upgrade_flags) = true.
Proof. vm_cast_no_check (eq_refl true). Qed.

Lemma upgrade_fail_follows :
  forall on opt, In on (subsets fail_upgrade_flags) -> In opt [""; "server"] ->
    upgrade_fails_ok flow upgrade_dry_spellings (mkXG true false) (mkXF on opt 2 0) (sc_chart sc_crds 1)
                     [sc_rel 1 SSuperseded; sc_rel 2 SDeployed] = true.
Proof. exact (lift2 _ _ _ upgrade_fail_fact). Qed.

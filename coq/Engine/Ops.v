(* Release engine — the four operations as effect programs, transcribed statement by
   statement from pkg/action/{install,upgrade,rollback,uninstall,hooks}.go and
   pkg/storage/storage.go (Create with removeLeastRecent).  Rendering is abstracted: an
   operation receives the rendered manifest and hooks. *)
From Coq Require Import List String Bool Arith ZArith.
From Helm Require Import Common.Assoc Engine.Types Engine.Eff.
Import ListNotations.
Local Open Scope prog_scope.

(* ------------------------------------------------------------------ *)
(* storage.Storage.Create with history pruning                          *)

(* the toDelete loop of removeLeastRecent, over the revision-sorted history *)
Fixpoint prune_pick (h : list release) (deployed : option nat) (total maxkeep : nat) (picked : nat)
  : list nat :=
  match h with
  | [] => []
  | r :: t =>
      if Nat.eqb (total - picked) maxkeep then []
      else
        let skip := match deployed with Some d => Nat.eqb (rev r) d | None => false end in
        if skip then prune_pick t deployed total maxkeep picked
        else rev r :: prune_pick t deployed total maxkeep (S picked)
  end.

Fixpoint insert_by_rev (r : release) (l : list release) : list release :=
  match l with
  | [] => [r]
  | x :: t => if Nat.leb (rev r) (rev x) then r :: l else x :: insert_by_rev r t
  end.

Definition sort_by_rev (l : list release) : list release := fold_right insert_by_rev [] l.

(* delete every picked revision, collecting errors: (number of errors, first error) *)
Fixpoint delete_all (vs : list nat) : prog (nat * serr) :=
  match vs with
  | [] => Ret (0, SOk)
  | v :: t =>
      e <- perform (SDelete v) ;;
      rest <- delete_all t ;;
      match e with
      | SOk => Ret rest
      | _ => Ret (S (fst rest), e)
      end
  end.

(* removeLeastRecent name (MaxHistory-1): returns the error class Create looks at *)
Definition remove_least_recent (maxkeep : nat) : prog serr :=
  h <- perform SHistory ;;
  match h with
  | [] => Ret SNotFound                        (* Query: ErrReleaseNotFound *)
  | _ =>
      if Nat.leb (List.length h) maxkeep then Ret SOk
      else
        ds <- perform SDeployedAll ;;
        let dep := match max_rev_of ds with Some d => Some (rev d) | None => None end in
        let picks := prune_pick (sort_by_rev h) dep (List.length h) maxkeep 0 in
        r <- delete_all picks ;;
        match fst r with
        | 0 => Ret SOk
        | 1 => Ret (snd r)
        | _ => Ret SFail
        end
  end.

Definition storage_create (r : release) (max_history : nat) : prog serr :=
  match max_history with
  | 0 => perform (SCreate r)
  | S m =>
      e <- remove_least_recent m ;;
      match e with
      | SOk | SNotFound => perform (SCreate r)
      | _ => Ret e
      end
  end.

(* cfg.recordRelease: Update, error logged and dropped *)
Definition record_release (r : release) : prog unit :=
  _e <- perform (SUpdate r) ;; Ret tt.

(* ------------------------------------------------------------------ *)
(* hooks.go                                                             *)

(* hookByWeight: stable insertion by (weight, name) *)
Fixpoint str_ltb (a b : string) : bool :=
  match a, b with
  | EmptyString, EmptyString => false
  | EmptyString, String _ _ => true
  | String _ _, EmptyString => false
  | String c1 t1, String c2 t2 =>
      if Nat.ltb (Ascii.nat_of_ascii c1) (Ascii.nat_of_ascii c2) then true
      else if Nat.ltb (Ascii.nat_of_ascii c2) (Ascii.nat_of_ascii c1) then false
      else str_ltb t1 t2
  end.

Definition hook_less (a b : hook) : bool :=
  if Z.eqb (h_weight a) (h_weight b) then str_ltb (h_name a) (h_name b)
  else Z.ltb (h_weight a) (h_weight b).

(* [h] comes from the front of the input: it goes before every element that is not
   strictly smaller, which keeps the sort stable (sort.Stable) *)
Fixpoint hook_insert (h : hook) (l : list hook) : list hook :=
  match l with
  | [] => [h]
  | x :: t => if hook_less x h then x :: hook_insert h t else h :: l
  end.

Definition sort_hooks (l : list hook) : list hook := fold_right hook_insert [] l.

(* a hook is selected once per occurrence of the event in its event list *)
Definition hooks_for (ev : event) (hs : list hook) : list hook :=
  flat_map (fun h => map (fun _ => h) (filter (event_eqb ev) (h_events h))) hs.

Definition effective_policies (h : hook) : list policy :=
  match h_policies h with [] => [BeforeHookCreation] | l => l end.

Definition has_policy (h : hook) (p : policy) : bool := existsb (policy_eqb p) (effective_policies h).

(* deleteHookByPolicy: true = no error *)
Definition delete_hook_by_policy (h : hook) (p : policy) : prog bool :=
  if String.eqb (h_kind h) "CustomResourceDefinition" then Ret true
  else if has_policy h p then
    ok <- perform (KDelete [h_res h]) ;;
    if ok then perform (KWaitDelete [h_res h]) else Ret false
  else Ret true.

Fixpoint delete_hooks_by_policy (hs : list hook) (p : policy) : prog bool :=
  match hs with
  | [] => Ret true
  | h :: t => ok <- delete_hook_by_policy h p ;; if ok then delete_hooks_by_policy t p else Ret false
  end.

(* the main loop of execHook; [done] = hooks already run, in order *)
Fixpoint exec_hooks_loop (rl : release) (ev : event) (todo done : list hook) : prog bool :=
  match todo with
  | [] => delete_hooks_by_policy (List.rev done) HookSucceeded
  | h :: t =>
      ok <- delete_hook_by_policy h BeforeHookCreation ;;
      if negb ok then Ret false else
      record_release rl ;;;
      created <- perform (KCreate [h_res h]) ;;
      if negb created then Ret false else
      ready <- perform (KHookWatch ev h) ;;
      if ready then exec_hooks_loop rl ev t (done ++ [h])%list
      else
        _x <- delete_hook_by_policy h HookFailed ;;
        _y <- delete_hooks_by_policy done HookSucceeded ;;
        Ret false
  end.

Definition exec_hook (rl : release) (ev : event) : prog bool :=
  exec_hooks_loop rl ev (sort_hooks (hooks_for ev (hooks rl))) [].

Definition run_hooks (fl : flags) (rl : release) (ev : event) : prog bool :=
  if f_no_hooks fl then Ret true else exec_hook rl ev.

(* ------------------------------------------------------------------ *)
Section Ops.
  Variable rn ns : string.          (* release name and namespace *)

  Definition stamp_all (rs : list res) : list res := map (stamp rn ns) rs.

  (* ---------------- uninstall.go ---------------- *)
  Fixpoint purge (vs : list nat) : prog bool :=
    match vs with
    | [] => Ret true
    | v :: t => e <- perform (SDelete v) ;;
                match e with SOk => purge t | _ => Ret false end
    end.

  Definition uninstall (fl : flags) : prog outcome :=
    if f_dry_run fl then
      h <- perform SHistory ;;
      match h with [] => Ret (OErr ENotFoundRel) | _ => Ret OOk end
    else
    h <- perform SHistory ;;
    match max_rev_of h with
    | None => Ret (OErr ENotFoundRel)
    | Some last =>
        let revs := map rev (sort_by_rev h) in
        if status_eqb (st last) SUninstalled then
          if f_keep_history fl then Ret (OErr EOtherErr)
          else ok <- purge revs ;; Ret (if ok then OOk else OErr EOtherErr)
        else
          let rel := with_status last SUninstalling in
          pre <- run_hooks fl rel PreDelete ;;
          if negb pre then Ret (OErr EOtherErr) else
          record_release rel ;;;
          let todel := filter (fun r => negb (manifest_keep r)) (manifest rel) in
          delok <- match todel with
                   | [] => Ret true
                   | _ => perform (KDelete todel)
                   end ;;
          if negb delok then Ret (OErr EOtherErr) else
          w <- perform (KWaitDelete todel) ;;
          post <- run_hooks fl rel PostDelete ;;
          let rel' := with_status rel SUninstalled in
          if f_keep_history fl then
            record_release rel' ;;;
            Ret (if w && post then OOk else OErr EOtherErr)
          else
            ok <- purge revs ;;
            Ret (if w && post && ok then OOk else OErr EOtherErr)
    end.

  (* ---------------- rollback.go ---------------- *)
  Fixpoint supersede_all (ds : list release) : prog unit :=
    match ds with
    | [] => Ret tt
    | d :: t => record_release (with_status d SSuperseded) ;;; supersede_all t
    end.

  Definition rollback (fl : flags) : prog outcome :=
    h <- perform SHistory ;;
    match max_rev_of h with
    | None => Ret (OErr ENotFoundRel)
    | Some cur =>
        let prev := match f_version fl with 0 => rev cur - 1 | v => v end in
        h2 <- perform SHistory ;;
        if negb (existsb (fun r => Nat.eqb (rev r) prev) h2) then Ret (OErr EOtherErr) else
        p <- perform (SGet prev) ;;
        match p with
        | None => Ret (OErr EOtherErr)
        | Some pr =>
            let tgt := mkRelease (S (rev cur)) SPendingRollback (chart_id pr) (config_id pr)
                                 (manifest pr) (hooks pr) in
            if f_dry_run fl then Ret OOk else
            e <- storage_create tgt (f_max_history fl) ;;
            match e with
            | SExists => Ret (OErr EExistsRev)
            | SNotFound | SFail => Ret (OErr EOtherErr)
            | SOk =>
                let fail_pending := record_release (with_status tgt SFailed) ;;; Ret (OErr EOtherErr) in
                pre <- run_hooks fl tgt PreRollback ;;
                if negb pre then fail_pending else
                u <- perform (KUpdate (manifest cur) (stamp_all (manifest tgt))) ;;
                if negb (fst u) then
                  record_release (with_status cur SSuperseded) ;;;
                  record_release (with_status tgt SFailed) ;;;
                  (if f_cleanup fl then _d <- perform (KDelete (snd u)) ;; Ret (OErr EOtherErr)
                   else Ret (OErr EOtherErr))
                else
                w <- perform (KWait (stamp_all (manifest tgt))) ;;
                if negb w then
                  record_release cur ;;;
                  record_release (with_status tgt SFailed) ;;;
                  Ret (OErr EOtherErr)
                else
                post <- run_hooks fl tgt PostRollback ;;
                if negb post then fail_pending else
                ds <- perform SDeployedAll ;;
                supersede_all ds ;;;
                e2 <- perform (SUpdate (with_status tgt SDeployed)) ;;
                match e2 with SOk => Ret OOk | _ => Ret (OErr EOtherErr) end
            end
        end
    end.

  (* ---------------- install.go ---------------- *)
  Definition install_fail (fl : flags) (rel : release) : prog outcome :=
    if f_atomic fl then
      _u <- uninstall (mkFlags false false false false 0 (f_no_hooks fl) false false false 0) ;;
      Ret (OErr EOtherErr)
    else
      record_release (with_status rel SFailed) ;;; Ret (OErr EOtherErr).

  Definition install (fl : flags) (cid vid : nat) (mani : list res) (hks : list hook) : prog outcome :=
    let dry := f_dry_run fl in
    (* availableName *)
    avail <- (if dry then Ret true
              else h <- perform SHistory ;;
                   match max_rev_of h with
                   | None => Ret true
                   | Some last =>
                       Ret (f_replace fl && (status_eqb (st last) SUninstalled || status_eqb (st last) SFailed))
                   end) ;;
    if negb avail then Ret (OErr ENameInUse) else
    let rel0 := mkRelease 1 SPendingInstall cid vid mani hks in
    let resources := stamp_all mani in
    adopt <- (if negb (f_client_only fl) && negb (match resources with [] => true | _ => false end)
              then perform (KExisting resources (f_take_ownership fl))
              else Ret (Some [])) ;;
    match adopt with
    | None => Ret (OErr EConflict)
    | Some adopted =>
        if dry then Ret OOk else
        (* replaceRelease *)
        rr <- (if f_replace fl then
                 h <- perform SHistory ;;
                 match max_rev_of h with
                 | None => Ret (Some rel0)
                 | Some last =>
                     let rel1 := with_rev rel0 (S (rev last)) in
                     if status_eqb (st last) SFailed then Ret (Some rel1)
                     else e <- perform (SUpdate (with_status last SSuperseded)) ;;
                          match e with SOk => Ret (Some rel1) | _ => Ret None end
                 end
               else Ret (Some rel0)) ;;
        match rr with
        | None => Ret (OErr EOtherErr)
        | Some rel =>
            e <- storage_create rel 0 ;;
            match e with
            | SExists => Ret (OErr EExistsRev)
            | SNotFound | SFail => Ret (OErr EOtherErr)
            | SOk =>
                pre <- run_hooks fl rel PreInstall ;;
                if negb pre then install_fail fl rel else
                ok <- match resources with
                      | [] => Ret true
                      | _ => match adopted with
                             | [] => perform (KCreate resources)
                             | _ => u <- perform (KUpdate adopted resources) ;; Ret (fst u)
                             end
                      end ;;
                if negb ok then install_fail fl rel else
                w <- perform (KWait resources) ;;
                if negb w then install_fail fl rel else
                post <- run_hooks fl rel PostInstall ;;
                if negb post then install_fail fl rel else
                record_release (with_status rel SDeployed) ;;; Ret OOk
            end
        end
    end.

  (* ---------------- upgrade.go ---------------- *)
  Definition upgrade_fail (fl : flags) (up : release) (created : list res) : prog outcome :=
    record_release (with_status up SFailed) ;;;
    cleaned <- (if f_cleanup fl && negb (match created with [] => true | _ => false end)
                then perform (KDelete created) else Ret true) ;;
    if negb cleaned then Ret (OErr EOtherErr) else
    if f_atomic fl then
      h <- perform SHistory ;;
      let good := filter (fun r => status_eqb (st r) SSuperseded || status_eqb (st r) SDeployed) h in
      match max_rev_of good with
      | None => Ret (OErr EOtherErr)
      | Some g =>
          _r <- rollback (mkFlags false false false false 0 (f_no_hooks fl) false false false (rev g)) ;;
          Ret (OErr EOtherErr)
      end
    else Ret (OErr EOtherErr).

  Definition upgrade (fl : flags) (cid vid : nat) (mani : list res) (hks : list hook) : prog outcome :=
    h <- perform SHistory ;;
    match max_rev_of h with
    | None => Ret (OErr ENoDeployed)
    | Some last =>
        if is_pending (st last) then Ret (OErr EPending) else
        cur <- (if status_eqb (st last) SDeployed then Ret (Some last)
                else ds <- perform SDeployedAll ;;
                     match max_rev_of ds with
                     | Some d => Ret (Some d)
                     | None => if status_eqb (st last) SFailed || status_eqb (st last) SSuperseded
                               then Ret (Some last) else Ret None
                     end) ;;
        match cur with
        | None => Ret (OErr ENoDeployed)
        | Some current =>
            let up := mkRelease (S (rev last)) SPendingUpgrade cid vid mani hks in
            let target := stamp_all mani in
            let tobecreated := filter (fun r => negb (in_keys (rkey r) (manifest current))) target in
            adopt <- perform (KExisting tobecreated (f_take_ownership fl)) ;;
            match adopt with
            | None => Ret (OErr EConflict)
            | Some adopted =>
                let curres := (manifest current ++ adopted)%list in
                if f_dry_run fl then Ret OOk else
                e <- storage_create up (f_max_history fl) ;;
                match e with
                | SExists => Ret (OErr EExistsRev)
                | SNotFound | SFail => Ret (OErr EOtherErr)
                | SOk =>
                    pre <- run_hooks fl up PreUpgrade ;;
                    if negb pre then upgrade_fail fl up [] else
                    u <- perform (KUpdate curres target) ;;
                    if negb (fst u) then record_release current ;;; upgrade_fail fl up (snd u) else
                    w <- perform (KWait target) ;;
                    if negb w then record_release current ;;; upgrade_fail fl up (snd u) else
                    post <- run_hooks fl up PostUpgrade ;;
                    if negb post then upgrade_fail fl up (snd u) else
                    record_release (with_status current SSuperseded) ;;;
                    e2 <- perform (SUpdate (with_status up SDeployed)) ;;
                    match e2 with SOk => Ret OOk | _ => Ret (OErr EOtherErr) end
                end
            end
        end
    end.

  Inductive op :=
  | OpInstall (fl : flags) (cid vid : nat) (mani : list res) (hks : list hook)
  | OpUpgrade (fl : flags) (cid vid : nat) (mani : list res) (hks : list hook)
  | OpRollback (fl : flags)
  | OpUninstall (fl : flags).

  Definition op_prog (o : op) : prog outcome :=
    match o with
    | OpInstall fl c v m hs => install fl c v m hs
    | OpUpgrade fl c v m hs => upgrade fl c v m hs
    | OpRollback fl => rollback fl
    | OpUninstall fl => uninstall fl
    end.
End Ops.

(* C03 — a cluster-side failure is reported: in EVERY execution of install / upgrade /
   rollback / uninstall (every flag combination, every cluster behaviour), if an ownership
   check, a creation, an update, a readiness wait or a hook watch fails, the operation does
   not return success.  (Deletions are not in the list: see the known finding K7 and the
   ignored hook-failed / clean-up deletions.) *)
From Coq Require Import List String Bool Arith ZArith Lia.
From Helm Require Import Common.Assoc Engine.Types Engine.Eff Engine.Ops Engine.Cluster Engine.Seq
  Engine.HooksProofsTrace Engine.HooksProofsGate.
Import ListNotations.
Local Open Scope prog_scope.

Definition failure (x : er) : bool :=
  match x with
  | ER e r =>
      match e return resp e -> bool with
      | KCreate _ => fun ok => negb ok
      | KUpdate _ _ => fun u => negb (fst u)
      | KWait _ => fun ok => negb ok
      | KHookWatch _ _ => fun ok => negb ok
      | KExisting _ _ => fun o => match o with None => true | Some _ => false end
      | _ => fun _ => false
      end r
  end.

Definition has_failure (tr : list er) : bool := existsb failure tr.

Lemma has_failure_app a b : has_failure (a ++ b) = has_failure a || has_failure b.
Proof. apply existsb_app. Qed.

(* [flagged Bad p]: whenever an execution of p contains a failure, its result is Bad *)
Definition flagged {A} (Bad : A -> Prop) (p : prog A) : Prop :=
  forall tr a, exec p tr a -> has_failure tr = true -> Bad a.

Definition never {A} (Bad : A -> Prop) (p : prog A) : Prop := forall tr a, exec p tr a -> Bad a.

Arguments flagged : simpl never.
Arguments never : simpl never.

Lemma never_flagged {A} (Bad : A -> Prop) (p : prog A) : never Bad p -> flagged Bad p.
Proof. intros H tr a He _. eapply H; eauto. Qed.

Lemma flagged_ret {A} (Bad : A -> Prop) (a : A) : flagged Bad (Ret a).
Proof. intros tr b H Hf. apply exec_ret_inv in H. destruct H as [-> _]. discriminate. Qed.

Lemma never_ret {A} (Bad : A -> Prop) (a : A) : Bad a -> never Bad (Ret a).
Proof. intros Hb tr b H. apply exec_ret_inv in H. destruct H as [_ ->]. exact Hb. Qed.

Lemma flagged_bind {A B} (BadA : A -> Prop) (BadB : B -> Prop) (p : prog A) (f : A -> prog B) :
  flagged BadA p -> (forall a, BadA a -> never BadB (f a)) -> (forall a, flagged BadB (f a)) ->
  flagged BadB (bind p f).
Proof.
  intros Hp Hbad Hf tr b H Hfail.
  apply exec_bind_inv in H. destruct H as (tr1 & a & tr2 & H1 & H2 & ->).
  rewrite has_failure_app in Hfail. apply orb_true_iff in Hfail. destruct Hfail as [F|F].
  - eapply Hbad; eauto.
  - eapply Hf; eauto.
Qed.

Lemma never_bind {A B} (BadB : B -> Prop) (p : prog A) (f : A -> prog B) :
  (forall a, never BadB (f a)) -> never BadB (bind p f).
Proof.
  intros Hf tr b H. apply exec_bind_inv in H. destruct H as (tr1 & a & tr2 & _ & H2 & _).
  eapply Hf; eauto.
Qed.

Lemma flagged_eff {A} (Bad : A -> Prop) e (k : resp e -> prog A) :
  (forall r, (failure (ER e r) = true -> never Bad (k r)) /\ flagged Bad (k r)) ->
  flagged Bad (Eff e k).
Proof.
  intros Hk tr a H Hfail. apply exec_eff_inv in H. destruct H as (r & tr' & -> & H).
  destruct (Hk r) as [Hn Hf]. simpl in Hfail. apply orb_true_iff in Hfail. destruct Hfail as [F|F].
  - eapply Hn; eauto.
  - eapply Hf; eauto.
Qed.

Lemma never_eff {A} (Bad : A -> Prop) e (k : resp e -> prog A) :
  (forall r, never Bad (k r)) -> never Bad (Eff e k).
Proof.
  intros Hk tr a H. apply exec_eff_inv in H. destruct H as (r & tr' & -> & H). eapply Hk; eauto.
Qed.

(* effects that cannot be failures *)
Definition quiet_kind (e : eff) : Prop :=
  match e with
  | KCreate _ | KUpdate _ _ | KWait _ | KHookWatch _ _ | KExisting _ _ => False
  | _ => True
  end.

Lemma only_quiet_no_failure {A} (p : prog A) tr a :
  only quiet_kind p -> exec p tr a -> has_failure tr = false.
Proof.
  intros Ho H. induction H; simpl in *; auto.
  destruct Ho as [He Hk]. rewrite (IHexec (Hk r)). rewrite orb_false_r.
  destruct e; simpl in *; auto; contradiction.
Qed.

Lemma flagged_of_quiet {A} (Bad : A -> Prop) (p : prog A) : only quiet_kind p -> flagged Bad p.
Proof.
  intros Ho tr a H Hf. rewrite (only_quiet_no_failure _ _ _ Ho H) in Hf. discriminate.
Qed.

Lemma storage_is_quiet e : storage_eff e -> quiet_kind e.
Proof. destruct e; simpl; auto; discriminate. Qed.

Lemma delete_hook_quiet h p : only quiet_kind (delete_hook_by_policy h p).
Proof.
  unfold delete_hook_by_policy.
  destruct (String.eqb (h_kind h) "CustomResourceDefinition"); simpl; auto.
  destruct (has_policy h p); simpl; auto. split; auto. intros []; simpl; auto.
Qed.

Lemma delete_hooks_quiet p hs : only quiet_kind (delete_hooks_by_policy hs p).
Proof.
  induction hs as [|h t IH]; simpl; auto.
  apply only_bind; [apply delete_hook_quiet|]. intros []; simpl; auto.
Qed.

Definition is_false (b : bool) : Prop := b = false.
Definition not_ok (o : outcome) : Prop := o <> OOk.

(* ---- hooks ---- *)
Lemma loop_flagged rl ev : forall todo done, flagged is_false (exec_hooks_loop rl ev todo done).
Proof.
  induction todo as [|h t IH]; intros done; simpl.
  - apply flagged_of_quiet. apply delete_hooks_quiet.
  - eapply flagged_bind with (BadA := fun _ => False).
    + apply flagged_of_quiet. apply delete_hook_quiet.
    + intros a [].
    + intros ok. destruct ok; simpl; [|apply flagged_ret].
      apply flagged_eff. intros se. split; [discriminate|].
      apply flagged_eff. intros created. split.
      * intros F. destruct created; [discriminate|]. simpl. apply never_ret. reflexivity.
      * destruct created; simpl; [|apply flagged_ret].
        apply flagged_eff. intros ready. split.
        -- intros F. destruct ready; [discriminate|].
           apply never_bind. intros _. apply never_bind. intros _. apply never_ret. reflexivity.
        -- destruct ready; [apply IH|].
           apply flagged_of_quiet.
           apply only_bind; [apply delete_hook_quiet|]. intros _.
           apply only_bind; [apply delete_hooks_quiet|]. intros _. exact I.
Qed.

Lemma run_hooks_flagged fl rl ev : flagged is_false (run_hooks fl rl ev).
Proof.
  unfold run_hooks, exec_hook. destruct (f_no_hooks fl); [apply flagged_ret|apply loop_flagged].
Qed.

Lemma flagged_storage {A} (Bad : A -> Prop) (p : prog A) : only storage_eff p -> flagged Bad p.
Proof.
  intros H. apply flagged_of_quiet. eapply only_mono; [|exact H]. apply storage_is_quiet.
Qed.

Ltac nv :=
  repeat first
    [ apply never_ret; unfold not_ok, is_false; first [discriminate | reflexivity]
    | apply never_bind; intros ?
    | apply never_eff; intros ?
    | match goal with
      | |- never _ (if ?c then _ else _) => destruct c
      | |- never _ (match ?x with _ => _ end) => destruct x
      end ].

Section Reported.
  Variable rn ns : string.

  Ltac fl_storage := apply flagged_storage;
    first [apply record_release_storage | apply storage_create_storage | apply purge_storage
          | apply supersede_all_storage].

  (* ---------------- uninstall ---------------- *)
  Lemma uninstall_flagged fl : flagged not_ok (uninstall fl).
  Proof.
    unfold uninstall. cbv zeta. destruct (f_dry_run fl).
    { apply flagged_of_quiet. simpl. split; auto. intros h. destruct h; exact I. }
    apply flagged_eff. intros h. split; [discriminate|].
    destruct (max_rev_of h) as [last|]; [|apply flagged_ret].
    destruct (status_eqb (st last) SUninstalled).
    { destruct (f_keep_history fl); [apply flagged_ret|].
      apply flagged_of_quiet. apply only_bind.
      - eapply only_mono; [|apply purge_storage]. apply storage_is_quiet.
      - intros ok. exact I. }
    eapply flagged_bind with (BadA := is_false); [apply run_hooks_flagged| |].
    { intros a ->. cbv beta iota delta [negb]. apply never_ret. discriminate. }
    intros pre. destruct pre; cbv beta iota delta [negb]; [|apply flagged_ret].
    eapply flagged_bind with (BadA := fun _ => False); [fl_storage|intros a []|]. intros _.
    eapply flagged_bind with (BadA := fun _ => False).
    { apply flagged_of_quiet. destruct (filter _ _); simpl; [exact I|split; auto]. }
    { intros a []. }
    intros delok. destruct delok; cbv beta iota delta [negb]; [|apply flagged_ret].
    apply flagged_eff. intros w. split; [discriminate|].
    eapply flagged_bind with (BadA := is_false); [apply run_hooks_flagged| |].
    { intros a ->. destruct (f_keep_history fl).
      - apply never_bind. intros _. apply never_ret. rewrite andb_false_r. discriminate.
      - apply never_bind. intros ok. apply never_ret. rewrite andb_false_r. simpl. discriminate. }
    intros post. destruct (f_keep_history fl).
    - apply flagged_of_quiet. apply only_bind; [|intros; exact I].
      eapply only_mono; [|apply record_release_storage]. apply storage_is_quiet.
    - apply flagged_of_quiet. apply only_bind; [|intros; exact I].
      eapply only_mono; [|apply purge_storage]. apply storage_is_quiet.
  Qed.

  (* ---------------- rollback ---------------- *)
  Lemma rollback_flagged fl : flagged not_ok (rollback rn ns fl).
  Proof.
    unfold rollback. cbv zeta.
    apply flagged_eff. intros h. split; [discriminate|].
    destruct (max_rev_of h) as [cur|]; [|apply flagged_ret].
    cbv zeta.
    apply flagged_eff. intros h2. split; [discriminate|].
    match goal with |- flagged _ (if ?c then _ else _) => destruct c end; [apply flagged_ret|].
    apply flagged_eff. intros p. split; [discriminate|].
    destruct p as [pr|]; [|apply flagged_ret].
    destruct (f_dry_run fl); [apply flagged_ret|].
    eapply flagged_bind with (BadA := fun _ => False); [fl_storage|intros a []|].
    intros e. destruct e; try apply flagged_ret.
    assert (Hfp : forall x, never not_ok (record_release x ;;; Ret (OErr EOtherErr))).
    { intros x. nv. }
    eapply flagged_bind with (BadA := is_false); [apply run_hooks_flagged| |].
    { intros a ->. cbv beta iota delta [negb]. apply Hfp. }
    intros pre. destruct pre; cbv beta iota delta [negb]; [|apply flagged_of_quiet; apply only_bind; [|intros; exact I];
      eapply only_mono; [|apply record_release_storage]; apply storage_is_quiet].
    apply flagged_eff. intros u. split.
    { intros F. simpl in F. destruct (fst u); [discriminate|]. cbv beta iota delta [negb]. nv. }
    destruct (fst u); cbv beta iota delta [negb].
    2:{ apply flagged_of_quiet.
        apply only_bind; [eapply only_mono; [|apply record_release_storage]; apply storage_is_quiet|]. intros _.
        apply only_bind; [eapply only_mono; [|apply record_release_storage]; apply storage_is_quiet|]. intros _.
        destruct (f_cleanup fl); simpl; auto. }
    apply flagged_eff. intros w. split.
    { intros F. destruct w; [discriminate|]. cbv beta iota delta [negb]. nv. }
    destruct w; cbv beta iota delta [negb].
    2:{ apply flagged_of_quiet.
        apply only_bind; [eapply only_mono; [|apply record_release_storage]; apply storage_is_quiet|]. intros _.
        apply only_bind; [eapply only_mono; [|apply record_release_storage]; apply storage_is_quiet|]. intros _.
        exact I. }
    eapply flagged_bind with (BadA := is_false); [apply run_hooks_flagged| |].
    { intros a ->. cbv beta iota delta [negb]. apply Hfp. }
    intros post. destruct post; cbv beta iota delta [negb].
    2:{ apply flagged_of_quiet. apply only_bind; [|intros; exact I].
        eapply only_mono; [|apply record_release_storage]. apply storage_is_quiet. }
    apply flagged_of_quiet. simpl. split; auto. intros ds.
    apply only_bind; [eapply only_mono; [|apply supersede_all_storage]; apply storage_is_quiet|]. intros _.
    simpl. split; auto. intros e2. destruct e2; exact I.
  Qed.

  (* ---------------- install ---------------- *)
  Lemma install_fail_never fl rel : never not_ok (install_fail fl rel).
  Proof.
    unfold install_fail. destruct (f_atomic fl).
    - apply never_bind. intros _. apply never_ret. discriminate.
    - apply never_bind. intros _. apply never_ret. discriminate.
  Qed.

  Lemma install_flagged fl cid vid mani hks : flagged not_ok (install rn ns fl cid vid mani hks).
  Proof.
    unfold install. cbv zeta.
    eapply flagged_bind with (BadA := fun _ => False).
    { apply flagged_of_quiet. destruct (f_dry_run fl); simpl; auto. split; auto.
      intros h. destruct (max_rev_of h); exact I. }
    { intros a []. }
    intros avail. destruct avail; cbv beta iota delta [negb]; [|apply flagged_ret].
    eapply flagged_bind with (BadA := fun a => a = None).
    { match goal with |- flagged _ (if ?c then _ else _) => destruct c end; [|apply flagged_ret].
      apply flagged_eff. intros r. split; [|apply flagged_ret].
      intros F. destruct r; [discriminate|]. apply never_ret. reflexivity. }
    { intros a ->. apply never_ret. discriminate. }
    intros adopt. destruct adopt as [adopted|]; [|apply flagged_ret].
    destruct (f_dry_run fl); [apply flagged_ret|].
    eapply flagged_bind with (BadA := fun _ => False).
    { apply flagged_of_quiet. destruct (f_replace fl); simpl; auto. split; auto.
      intros h. destruct (max_rev_of h) as [last|]; simpl; auto.
      destruct (status_eqb (st last) SFailed); simpl; auto. split; auto. intros e. destruct e; exact I. }
    { intros a []. }
    intros rr. destruct rr as [rel|]; [|apply flagged_ret].
    eapply flagged_bind with (BadA := fun _ => False); [fl_storage|intros a []|].
    intros e. destruct e; try apply flagged_ret.
    eapply flagged_bind with (BadA := is_false); [apply run_hooks_flagged| |].
    { intros a ->. cbv beta iota delta [negb]. apply install_fail_never. }
    intros pre. destruct pre; cbv beta iota delta [negb]; [|apply never_flagged, install_fail_never].
    eapply flagged_bind with (BadA := is_false).
    { destruct (stamp_all rn ns mani); [apply flagged_ret|].
      destruct adopted.
      - apply flagged_eff. intros ok. split; [|apply flagged_ret].
        intros F. destruct ok; [discriminate|]. apply never_ret. reflexivity.
      - apply flagged_eff. intros u. split; [|apply flagged_ret].
        intros F. simpl in F. apply never_ret. unfold is_false. destruct (fst u); [discriminate|reflexivity]. }
    { intros a ->. cbv beta iota delta [negb]. apply install_fail_never. }
    intros ok. destruct ok; cbv beta iota delta [negb]; [|apply never_flagged, install_fail_never].
    apply flagged_eff. intros w. split.
    { intros F. destruct w; [discriminate|]. cbv beta iota delta [negb]. apply install_fail_never. }
    destruct w; cbv beta iota delta [negb]; [|apply never_flagged, install_fail_never].
    eapply flagged_bind with (BadA := is_false); [apply run_hooks_flagged| |].
    { intros a ->. cbv beta iota delta [negb]. apply install_fail_never. }
    intros post. destruct post; cbv beta iota delta [negb]; [|apply never_flagged, install_fail_never].
    apply flagged_of_quiet. apply only_bind; [|intros; exact I].
    eapply only_mono; [|apply record_release_storage]. apply storage_is_quiet.
  Qed.

  (* ---------------- upgrade ---------------- *)
  Lemma upgrade_fail_never fl up created : never not_ok (upgrade_fail rn ns fl up created).
  Proof.
    unfold upgrade_fail. apply never_bind. intros _. apply never_bind. intros cleaned.
    destruct cleaned; cbv beta iota delta [negb]; [|apply never_ret; discriminate].
    destruct (f_atomic fl); [|apply never_ret; discriminate].
    apply never_eff. intros h. destruct (max_rev_of _); [|apply never_ret; discriminate].
    apply never_bind. intros _. apply never_ret. discriminate.
  Qed.

  Lemma upgrade_flagged fl cid vid mani hks : flagged not_ok (upgrade rn ns fl cid vid mani hks).
  Proof.
    unfold upgrade. cbv zeta.
    apply flagged_eff. intros h. split; [discriminate|].
    destruct (max_rev_of h) as [last|]; [|apply flagged_ret].
    destruct (is_pending (st last)); [apply flagged_ret|].
    eapply flagged_bind with (BadA := fun _ => False).
    { apply flagged_of_quiet. destruct (status_eqb (st last) SDeployed); simpl; auto. split; auto.
      intros ds. destruct (max_rev_of ds); simpl; auto.
      destruct (status_eqb (st last) SFailed || status_eqb (st last) SSuperseded); exact I. }
    { intros a []. }
    intros cur. destruct cur as [current|]; [|apply flagged_ret].
    cbv zeta.
    apply flagged_eff. intros adopt. split.
    { intros F. destruct adopt; [discriminate|]. apply never_ret. discriminate. }
    destruct adopt as [adopted|]; [|apply flagged_ret].
    destruct (f_dry_run fl); [apply flagged_ret|].
    eapply flagged_bind with (BadA := fun _ => False); [fl_storage|intros a []|].
    intros e. destruct e; try apply flagged_ret.
    eapply flagged_bind with (BadA := is_false); [apply run_hooks_flagged| |].
    { intros a ->. cbv beta iota delta [negb]. apply upgrade_fail_never. }
    intros pre. destruct pre; cbv beta iota delta [negb]; [|apply never_flagged, upgrade_fail_never].
    apply flagged_eff. intros u. split.
    { intros F. simpl in F. destruct (fst u); [discriminate|]. cbv beta iota delta [negb].
      apply never_bind. intros _. apply upgrade_fail_never. }
    destruct (fst u); cbv beta iota delta [negb]; [|apply never_flagged, never_bind; intros _; apply upgrade_fail_never].
    apply flagged_eff. intros w. split.
    { intros F. destruct w; [discriminate|]. cbv beta iota delta [negb]. apply never_bind. intros _. apply upgrade_fail_never. }
    destruct w; cbv beta iota delta [negb]; [|apply never_flagged, never_bind; intros _; apply upgrade_fail_never].
    eapply flagged_bind with (BadA := is_false); [apply run_hooks_flagged| |].
    { intros a ->. cbv beta iota delta [negb]. apply upgrade_fail_never. }
    intros post. destruct post; cbv beta iota delta [negb]; [|apply never_flagged, upgrade_fail_never].
    apply flagged_of_quiet.
    apply only_bind; [eapply only_mono; [|apply record_release_storage]; apply storage_is_quiet|]. intros _.
    simpl. split; auto. intros e2. destruct e2; exact I.
  Qed.

  Theorem cluster_error_reported o tr out :
    exec (op_prog rn ns o) tr out -> has_failure tr = true -> out <> OOk.
  Proof.
    intros H F. destruct o; simpl in H.
    - eapply install_flagged; eauto.
    - eapply upgrade_flagged; eauto.
    - eapply rollback_flagged; eauto.
    - eapply uninstall_flagged; eauto.
  Qed.
End Reported.

#!/bin/sh
# MANIFEST.setup_cmd: build the framework offline from files on disk only.
set -e
cd "$(dirname "$0")"
exec python3 lib/setup.py
